//! C04 — every entry is accounted exactly once: pass xor block, completion, in-flight.
use super::{run_configs, Pass};
use crate::common::*;
use crate::explore::Subject;
use crate::model::ledger::*;
use crate::model::window::*;
use crate::sut::*;
use sentinel_core::base::{ConcurrencyStat, EntryStrongPtr, MetricEvent, ReadStat, TrafficType};
use sentinel_core::{circuitbreaker as cb, flow, isolation, stat, system};
use serde::{Deserialize, Serialize};
use std::sync::Arc;

#[derive(Serialize, Deserialize, Clone, Debug)]
pub struct Cfg {
    /// none | isolation-a | flow-b | breaker-open-a | system-concurrency | mixed
    pub rules: String,
    pub phase: u64,
}

#[derive(Clone, Debug)]
pub enum Op {
    Build { res: &'static str, inbound: bool, batch: u32 },
    Exit(usize),
    /// the caller records a business error on the oldest open entry, then exits it: accounted as any exit
    ExitErr,
    Advance(u64),
    /// stat::reset_resource_map() while nothing is in flight: the resources start again with
    /// blank nodes (the global inbound node is not part of the registry and keeps its history)
    ResetRegistry,
}

struct Open {
    e: EntryStrongPtr,
    res: &'static str,
    inbound: bool,
    batch: u32,
    start: u64,
}

pub struct C04 {
    cfg: Cfg,
    ledger: Ledger,
    open: Vec<Open>,
    passes: u32,
    blocks: u32,
    exits: u32,
    advanced: bool,
}

const A: &str = "c04-a";
const B: &str = "c04-b";

pub fn ev(k: Kind) -> MetricEvent {
    match k {
        Kind::Pass => MetricEvent::Pass,
        Kind::Block => MetricEvent::Block,
        Kind::Complete => MetricEvent::Complete,
        Kind::Error => MetricEvent::Error,
        Kind::Rt => MetricEvent::Rt,
    }
}

/// Compare every reader of every node the ledger knows with the ledger, at the current instant.
pub fn compare_nodes(ledger: &Ledger, t: u64) -> Result<(), String> {
    for (name, nd) in &ledger.nodes {
        let node = if name == INBOUND {
            stat::inbound_node()
        } else {
            match stat::get_resource_node(name) {
                Some(n) => n,
                None => return Err(format!("no-node: resource {} has been entered but has no statistics node", name)),
            }
        };
        let conc = node.current_concurrency() as i64;
        if conc != nd.inflight {
            return Err(format!("inflight: node {} reports {} in flight, ledger {}", name, conc, nd.inflight));
        }
        for k in KINDS {
            let want = nd.log.sum(NODE_RING, NODE_W, t, k);
            let got = node.sum(ev(k));
            if got != want {
                return Err(format!("sum-{:?}: node {} at t=+{}: got {} ledger {}", k, name, t - T0_MS, got, want));
            }
            if node.qps(ev(k)) != want as f64 {
                return Err(format!("qps-{:?}: node {} at t=+{}: got {} ledger {}", k, name, t - T0_MS, node.qps(ev(k)), want));
            }
            // the whole 10 s ring
            let arr = node.verif_global_array();
            let lo = t as i128 - 10_000;
            let want_all: u64 = nd.log.events.iter().filter(|e| e.1 == k && (e.0 - e.0 % 500) as i128 >= lo && nd.log.retained(NODE_RING, e.0)).map(|e| e.2).sum();
            let got_all = arr.count_with_time(t, ev(k));
            if got_all != want_all {
                return Err(format!("ring-{:?}: node {} at t=+{}: got {} ledger {}", k, name, t - T0_MS, got_all, want_all));
            }
        }
        let c = nd.log.sum(NODE_RING, NODE_W, t, Kind::Complete);
        let rt = nd.log.sum(NODE_RING, NODE_W, t, Kind::Rt);
        let want_avg = if c == 0 { 0.0 } else { rt as f64 / c as f64 };
        if node.avg_rt() != want_avg {
            return Err(format!("avg_rt: node {} at t=+{}: got {} ledger {}", name, t - T0_MS, node.avg_rt(), want_avg));
        }
        let want_min = nd.log.min_rt(NODE_RING, NODE_W, t) as f64;
        if node.min_rt() != want_min {
            return Err(format!("min_rt: node {} at t=+{}: got {} ledger {}", name, t - T0_MS, node.min_rt(), want_min));
        }
    }
    Ok(())
}

impl C04 {
    pub fn new(cfg: &Cfg) -> Self {
        C04 { cfg: cfg.clone(), ledger: Ledger::default(), open: vec![], passes: 0, blocks: 0, exits: 0, advanced: false }
    }
    fn do_build(&mut self, res: &'static str, inbound: bool, batch: u32) -> Result<bool, String> {
        // the declared resource type varies with the shape of the entry (one node per resource
        // name, whatever type its entries declare)
        set_entry_resource_type(if batch == 2 { 1 } else if batch == 3 { 2 } else { 0 });
        let t = now_ms();
        let tt = if inbound { TrafficType::Inbound } else { TrafficType::Outbound };
        self.ledger.touch(res);
        // entries with a batch count above 1 also carry key/value parameters (no rule is keyed on
        // them): how an entry is parameterised has nothing to do with how it is accounted
        let att = if batch >= 2 {
            let mut m: sentinel_core::base::ParamsMap = Default::default();
            m.insert("c04-key".into(), "v".into());
            Some(m)
        } else {
            None
        };
        match build_full(res, tt, batch, None, att) {
            Built::Ok(e) => {
                // a queued (throttled) entry is held inside build(): it passes when it is released,
                // its response time counts from its creation
                let t_pass = now_ms();
                self.ledger.pass(res, inbound, t_pass, batch as u64);
                self.open.push(Open { e, res, inbound, batch, start: t });
                self.passes += 1;
                Ok(true)
            }
            Built::Blocked(..) => {
                self.ledger.block(res, inbound, t, batch as u64);
                self.blocks += 1;
                Ok(false)
            }
        }
    }
    fn do_exit(&mut self, i: usize) {
        let o = self.open.remove(i);
        let t = now_ms();
        o.e.exit();
        self.ledger.complete(o.res, o.inbound, t, o.batch as u64, t - o.start);
        self.exits += 1;
    }
}

impl Subject for C04 {
    type Op = Op;
    fn reset(&mut self) {
        for o in self.open.drain(..) {
            o.e.exit();
        }
        reset_world(T0_MS + self.cfg.phase);
        self.ledger.clear();
        self.passes = 0;
        self.blocks = 0;
        self.exits = 0;
        self.advanced = false;
        let r = self.cfg.rules.as_str();
        if r == "isolation-a" || r == "mixed" {
            isolation::load_rules(vec![Arc::new(isolation::Rule { id: "iso".into(), resource: A.into(), threshold: 1, ..Default::default() })]);
        }
        if r == "flow-b" || r == "mixed" {
            flow::load_rules(vec![Arc::new(flow::Rule { id: "flow".into(), resource: B.into(), threshold: 2.0, ..Default::default() })]);
        }
        if r == "many-resources" {
            // 10 000 other resources have been seen by the process before a and b are
            for i in 0..10_000 {
                if let Built::Ok(e) = build(&format!("c04-other-{}", i), TrafficType::Outbound, 1) {
                    e.exit();
                }
            }
        }
        if r == "throttle-b" {
            // a throttling rule that queues (and sometimes rejects) entries on b
            flow::load_rules(vec![Arc::new(flow::Rule { id: "thr".into(), resource: B.into(), threshold: 2.0, stat_interval_ms: 1000, control_strategy: flow::ControlStrategy::Throttling, max_queueing_time_ms: 600, ..Default::default() })]);
        }
        if r == "system-concurrency" || r == "mixed" {
            system::load_rules(vec![Arc::new(system::Rule { id: "sys".into(), metric_type: system::MetricType::Concurrency, threshold: 2.0, ..Default::default() })]);
        }
        if r == "hotspot-b" || r == "mixed" {
            // a hotspot QPS rule on b keyed on the first argument (the harness passes none: the
            // rule must not apply) plus a concurrency rule that never blocks
            sentinel_core::hotspot::load_rules(vec![
                Arc::new(sentinel_core::hotspot::Rule { id: "hs".into(), resource: B.into(), metric_type: sentinel_core::hotspot::MetricType::QPS, threshold: 0, duration_in_sec: 1, ..Default::default() }),
                Arc::new(sentinel_core::hotspot::Rule { id: "hc".into(), resource: A.into(), metric_type: sentinel_core::hotspot::MetricType::Concurrency, threshold: 100, ..Default::default() }),
            ]);
        }
        if r == "breaker-open-a" {
            cb::load_rules(vec![Arc::new(cb::Rule { id: "cb".into(), resource: A.into(), strategy: cb::BreakerStrategy::ErrorCount, retry_timeout_ms: 1000, min_request_amount: 1, stat_interval_ms: 1000, threshold: 1.0, ..Default::default() })]);
            // one failing request opens it; it is part of the ledger like any other entry
            self.do_build(A, false, 1).unwrap();
            self.open[0].e.set_err(sentinel_core::Error::msg("boom"));
            self.do_exit(0);
            self.passes = 0;
            self.exits = 0;
        }
    }
    fn enabled(&self) -> Vec<Op> {
        let mut v = vec![];
        for (res, inbound, batch) in [(A, true, 1), (A, false, 1), (B, true, 1), (B, false, 2), (A, true, 3), (B, true, 2), (A, false, 2), (B, false, 1)] {
            v.push(Op::Build { res, inbound, batch });
        }
        for i in 0..self.open.len().min(4) {
            v.push(Op::Exit(i));
        }
        if !self.open.is_empty() {
            v.push(Op::ExitErr);
        }
        if self.open.is_empty() && self.ledger.nodes.len() > 1 && self.cfg.rules != "many-resources" {
            v.push(Op::ResetRegistry);
        }
        // 61 000 ms: a response time beyond the statistic window and beyond the default maximum
        for d in [1, 499, 500, 1000, 10000, 61_000] {
            v.push(Op::Advance(d));
        }
        v
    }
    fn step(&mut self, op: &Op) -> Result<(), String> {
        match op {
            Op::Build { res, inbound, batch } => {
                self.do_build(res, *inbound, *batch)?;
            }
            Op::Exit(i) => self.do_exit(*i),
            Op::ExitErr => {
                self.open[0].e.set_err(sentinel_core::Error::msg("business error"));
                self.do_exit(0);
            }
            Op::Advance(d) => {
                advance_ms(*d);
                self.advanced = true;
            }
            Op::ResetRegistry => {
                stat::reset_resource_map();
                self.ledger.nodes.retain(|name, _| name == INBOUND);
            }
        }
        compare_nodes(&self.ledger, now_ms())
    }
    fn finish(&mut self) -> Result<(), String> {
        // exit everything: nothing may remain in flight anywhere
        while !self.open.is_empty() {
            self.do_exit(0);
        }
        compare_nodes(&self.ledger, now_ms())?;
        for (n, nd) in &self.ledger.nodes {
            if nd.inflight != 0 {
                return Err(format!("MACHINERY ledger inflight {} on {}", nd.inflight, n));
            }
        }
        // reads later on (windows sliding away) still agree
        let t0 = now_ms();
        for d in [499, 500, 1000, 9999, 10000, 10001] {
            sentinel_verif_rt::clock::set_ms(t0 + d);
            compare_nodes(&self.ledger, t0 + d)?;
        }
        sentinel_verif_rt::clock::set_ms(t0);
        Ok(())
    }
    fn nontrivial(&self) -> bool {
        self.passes >= 1 && self.exits >= 1 && (self.blocks >= 1 || self.advanced)
    }
    fn outcome(&self) -> String {
        format!("p{}b{}", self.passes.min(5), self.blocks.min(5))
    }
}

pub fn configs(thorough: bool) -> Vec<Cfg> {
    let mut v = vec![];
    let phases: &[u64] = if thorough { &[0, 1, 499] } else { &[0, 499] };
    for r in ["none", "isolation-a", "flow-b", "breaker-open-a", "system-concurrency", "hotspot-b", "mixed", "throttle-b"] {
        for ph in phases {
            v.push(Cfg { rules: r.into(), phase: *ph });
        }
    }
    // a process that has seen very many resource names (short sequences: the set-up is long)
    v.push(Cfg { rules: "many-resources".into(), phase: 0 });
    v
}

pub fn run(o: &Opts, stats: &mut Stats) -> Option<usize> {
    let cfgs = configs(o.thorough);
    let thorough = o.thorough;
    run_configs(o, stats, &cfgs, |c, _| C04::new(c), &move |c: &Cfg| {
        if c.rules == "many-resources" {
            vec![Pass { depth: if thorough { 3 } else { 2 }, max_dev: 3 }]
        } else if thorough {
            vec![Pass { depth: 8, max_dev: 4 }]
        } else {
            vec![Pass { depth: 6, max_dev: 3 }]
        }
    })
}
