//! C18 — rules and metric lines survive serialisation round trips unchanged.
use super::c12::{all_cases, AnyRule};
use crate::common::*;
use crate::sut::*;
use sentinel_core::base::{MetricItem, ResourceType, SentinelRule, TrafficType};
use sentinel_core::datasource::rule_json_array_parser;
use sentinel_core::{circuitbreaker as cb, flow, hotspot, isolation, system};
use serde::{de::DeserializeOwned, Serialize};
use serde_json::{json, Value};
use std::sync::Arc;

/// Resource names. The long ones put a multi-byte character under EVERY byte offset of a document
/// between about 25 and 145, in every alignment (3-byte characters shifted by 0..2 ASCII bytes,
/// 4-byte ones by 0..3): code that cuts a document at a byte offset meets a character boundary
/// problem for one of them.
const NAMES: [&str; 12] = [
    "c18-res",
    "资源/ü",
    "a|b|c",
    "q\"uo\\te",
    " sp ace\t",
    "资资资资资资资资资资资资资资资资资资资资资资资资资资资资资资资资资资资资资资资资",
    "a资资资资资资资资资资资资资资资资资资资资资资资资资资资资资资资资资资资资资资资资",
    "ab资资资资资资资资资资资资资资资资资资资资资资资资资资资资资资资资资资资资资资资资",
    "😀😀😀😀😀😀😀😀😀😀😀😀😀😀😀😀😀😀😀😀😀😀😀😀😀😀😀😀😀😀",
    "a😀😀😀😀😀😀😀😀😀😀😀😀😀😀😀😀😀😀😀😀😀😀😀😀😀😀😀😀😀😀",
    "ab😀😀😀😀😀😀😀😀😀😀😀😀😀😀😀😀😀😀😀😀😀😀😀😀😀😀😀😀😀😀",
    "abc😀😀😀😀😀😀😀😀😀😀😀😀😀😀😀😀😀😀😀😀😀😀😀😀😀😀😀😀😀😀",
];

fn guarded<T>(what: &str, f: impl FnOnce() -> T) -> Result<T, String> {
    std::panic::catch_unwind(std::panic::AssertUnwindSafe(f)).map_err(|e| format!("panic@{}: during {}: {}", last_panic_loc(), what, panic_msg(e).chars().take(160).collect::<String>()))
}

/// a short probe history whose decisions depend on the rule's parameters
fn probe_decisions(load: &dyn Fn(), res: &str) -> Vec<bool> {
    reset_world(T0_MS + 250);
    load();
    let mut out = vec![];
    let mut held = vec![];
    for (i, gap) in [0u64, 0, 0, 300, 0, 800, 0, 0].iter().enumerate() {
        advance_ms(*gap);
        match build_full(res, TrafficType::Inbound, 1, Some(vec!["a".into(), "b".into()]), None) {
            Built::Ok(e) => {
                out.push(true);
                if i % 2 == 0 {
                    e.set_err(sentinel_core::Error::msg("x"));
                    advance_ms(20);
                    e.exit();
                } else {
                    held.push(e);
                }
            }
            Built::Blocked(..) => out.push(false),
        }
    }
    for e in held {
        e.exit();
    }
    out
}

struct Counts {
    docs: u64,
    truncations: u64,
    not_serialisable: u64,
}

fn check_rule<R>(r: &R, load: &dyn Fn(Arc<R>), res: &str, deep: bool, cnt: &mut Counts) -> Result<(), String>
where
    R: Serialize + DeserializeOwned + SentinelRule + PartialEq + std::fmt::Debug + Default + Clone + 'static,
{
    let s = match guarded("to_string", || serde_json::to_string(r))? {
        Ok(s) => s,
        Err(_) => {
            // Custom(_) strategies are #[serde(skip)]: not serialisable, which is an error, not a panic
            cnt.not_serialisable += 1;
            return Ok(());
        }
    };
    let doc = format!("[{}]", s);
    cnt.docs += 1;
    // identity, through both parsers
    let a: Vec<R> = guarded("from_str", || serde_json::from_str::<Vec<R>>(&doc))?.map_err(|e| format!("own-output-rejected: {} for {}", e, doc))?;
    let b: Vec<Arc<R>> = guarded("rule_json_array_parser", || rule_json_array_parser::<R>(&doc))?.map_err(|e| format!("own-output-rejected: datasource parser: {} for {}", e, doc))?;
    for (who, p) in [("serde_json::from_str", &a[0]), ("rule_json_array_parser", &*b[0])] {
        if a.len() != 1 || b.len() != 1 {
            return Err(format!("count: one rule serialised, {} / {} parsed", a.len(), b.len()));
        }
        if p != r {
            return Err(format!("not-equal: {} of {} gives a rule that is not == the original {:?}", who, doc, r));
        }
        // field by field (maps compared as maps: their iteration order is not part of the value)
        let again = serde_json::to_value(p).map_err(|e| e.to_string())?;
        let orig = serde_json::to_value(r).map_err(|e| e.to_string())?;
        if again != orig {
            return Err(format!("field-changed: {} of {} re-serialises as {}, original {}", who, doc, again, orig));
        }
    }
    // enforced identically
    if deep && r.is_valid().is_ok() {
        let orig = Arc::new(r.clone());
        let d1 = probe_decisions(&|| load(orig.clone()), res);
        let d2 = probe_decisions(&|| load(b[0].clone()), res);
        if d1 != d2 {
            return Err(format!("enforced-differently: decisions {:?} with the original, {:?} with the parsed copy of {}", d1, d2, doc));
        }
    }
    let v: Value = serde_json::from_str(&s).unwrap();
    let obj = v.as_object().unwrap();
    let dflt: Value = serde_json::to_value(R::default()).unwrap();
    // reordered fields (serde_json::Value keeps keys sorted: an order different from the struct's)
    let reordered = format!("[{}]", serde_json::to_string(&v).unwrap());
    cnt.docs += 1;
    let c: Vec<R> = guarded("from_str reordered", || serde_json::from_str::<Vec<R>>(&reordered))?.map_err(|e| format!("reordered-rejected: {}", e))?;
    if serde_json::to_value(&c[0]).unwrap() != v {
        return Err(format!("reordered-differs: {:?} vs {:?}", c[0], r));
    }
    // each field dropped -> its documented default; each field given a wrong JSON type -> Err
    for key in obj.keys() {
        let mut o = obj.clone();
        o.remove(key);
        let d = format!("[{}]", serde_json::to_string(&o).unwrap());
        cnt.docs += 1;
        let p: Vec<R> = guarded("from_str with a dropped field", || serde_json::from_str::<Vec<R>>(&d))?.map_err(|e| format!("dropped-field-rejected: without {:?}: {}", key, e))?;
        let pv = serde_json::to_value(&p[0]).unwrap();
        if key != "id" && pv[key] != dflt[key] {
            return Err(format!("dropped-field-default: without {:?} the parsed rule has {}, the default is {}", key, pv[key], dflt[key]));
        }
        for (k2, v2) in obj {
            if k2 != key && pv[k2] != *v2 {
                return Err(format!("dropped-field-disturbs: without {:?}, field {:?} became {}", key, k2, pv[k2]));
            }
        }
        let wrong = match &obj[key] {
            Value::String(_) => json!(12),
            Value::Number(_) => json!("x"),
            Value::Object(_) => json!(12),
            _ => json!([1]),
        };
        let mut o = obj.clone();
        o.insert(key.clone(), wrong.clone());
        let d = format!("[{}]", serde_json::to_string(&o).unwrap());
        cnt.docs += 1;
        let p = guarded("from_str with a wrong type", || rule_json_array_parser::<R>(&d))?;
        if p.is_ok() {
            return Err(format!("wrong-type-accepted: field {:?} given as {} was accepted", key, wrong));
        }
    }
    // truncation at every byte
    if deep {
        let bytes = doc.as_bytes();
        for n in 0..bytes.len() {
            let t = match std::str::from_utf8(&bytes[..n]) {
                Ok(t) => t.to_string(),
                Err(_) => continue,
            };
            cnt.truncations += 1;
            let p = guarded("parsing a truncated document", || rule_json_array_parser::<R>(&t))?;
            if p.is_ok() {
                return Err(format!("truncated-accepted: the first {} bytes of {} were accepted", n, doc));
            }
        }
    }
    Ok(())
}

fn with_name(c: &AnyRule, name: &str) -> AnyRule {
    let mut c = c.clone();
    match &mut c {
        AnyRule::Flow(x) => {
            if !x.resource.is_empty() {
                x.resource = name.into();
            }
            if !x.ref_resource.is_empty() {
                x.ref_resource = format!("{}-ref", name);
            }
        }
        AnyRule::Cb(x) => {
            if !x.resource.is_empty() {
                x.resource = name.into()
            }
        }
        AnyRule::Hs(x) => {
            if !x.resource.is_empty() {
                x.resource = name.into()
            }
            if x.param_key == "k" {
                x.param_key = format!("k-{}", name);
            }
            x.specific_items = x.specific_items.iter().map(|(k, v)| (format!("{}{}", k, name), *v)).collect();
        }
        AnyRule::Iso(x) => {
            if !x.resource.is_empty() {
                x.resource = name.into()
            }
        }
        AnyRule::Sys(_) => {}
    }
    c
}

fn finite(c: &AnyRule) -> bool {
    match c {
        AnyRule::Flow(x) => x.threshold.is_finite(),
        AnyRule::Cb(x) => x.threshold.is_finite(),
        AnyRule::Sys(x) => x.threshold.is_finite(),
        _ => true,
    }
}

fn check_any(c: &AnyRule, deep: bool, cnt: &mut Counts) -> Result<(), String> {
    match c {
        AnyRule::Flow(x) => check_rule(x, &|r| { flow::load_rules(vec![r]); }, &x.resource, deep, cnt),
        AnyRule::Cb(x) => check_rule(x, &|r| { cb::load_rules(vec![r]); }, &x.resource, deep, cnt),
        AnyRule::Hs(x) => check_rule(x, &|r| { hotspot::load_rules(vec![r]); }, &x.resource, deep, cnt),
        AnyRule::Iso(x) => check_rule(x, &|r| isolation::load_rules(vec![r]), &x.resource, deep, cnt),
        AnyRule::Sys(x) => check_rule(x, &|r| system::load_rules(vec![r]), "c18-res", deep, cnt),
    }
}

/// the seven classifications, by their declared number (never through the library's own conversion)
const RTYPES: [ResourceType; 7] = [ResourceType::Common, ResourceType::Web, ResourceType::RPC, ResourceType::APIGateway, ResourceType::DBSQL, ResourceType::Cache, ResourceType::MQ];

fn metric_items(thorough: bool) -> Vec<MetricItem> {
    let big = [0u64, 1, u32::MAX as u64, u32::MAX as u64 + 1, u64::MAX];
    let mut v = vec![];
    // separators at the start, at the end, doubled and alone
    for (ni, name) in NAMES.iter().chain(["", "x\ny", "svc|", "|svc", "a||b", "|", "||", "资源||"].iter()).enumerate() {
        for ts in [0u64, 1, T0_MS, 253_402_300_799_000] {
            for rt in 0..=6u8 {
                if !thorough && (ni as u8 + rt) % 3 != 0 {
                    continue;
                }
                // one counter at a time over the boundary values, then all at the maximum
                for field in 0..6 {
                    for b in big {
                        let mut f = [7u64, 8, 9, 10, 11, 12];
                        f[field] = b;
                        v.push(MetricItem::verif_new(name.to_string(), RTYPES[rt as usize], ts, f[0], f[1], f[2], f[3], f[4], f[5], if b > u32::MAX as u64 { u32::MAX } else { b as u32 }));
                    }
                }
                v.push(MetricItem::verif_new(name.to_string(), RTYPES[rt as usize], ts, u64::MAX, u64::MAX, u64::MAX, u64::MAX, u64::MAX, u64::MAX, u32::MAX));
            }
        }
    }
    v
}

fn check_item(m: &MetricItem) -> Result<(), String> {
    let line = guarded("MetricItem::to_string", || m.to_string())?;
    let back = guarded("MetricItem::from_string", || MetricItem::from_string(&line))?.map_err(|e| format!("own-line-rejected: {:?}: {}", line, e))?;
    let (a, b) = (m.verif_fields(), back.verif_fields());
    // the last column is the declared number of the classification
    if !line.trim_end().ends_with(&format!("|{}", a.1)) {
        return Err(format!("classification-column: an item of classification {:?} (number {}) is written as {:?}", RTYPES.get(a.1 as usize), a.1, line));
    }
    let want_name = a.0.replace('|', "_");
    if b.0 != want_name {
        return Err(format!("name-altered: {:?} written, {:?} read back (only the separator may be replaced)", a.0, b.0));
    }
    if (a.1, a.2, a.3, a.4, a.5, a.6, a.7, a.8, a.9) != (b.1, b.2, b.3, b.4, b.5, b.6, b.7, b.8, b.9) {
        return Err(format!("item-changed: {:?} written as {:?} read back as {:?}", a, line, b));
    }
    Ok(())
}

/// Rules whose numeric fields sit at the edges of what the field type and JSON numbers can carry
/// (2^53 and 2^63/2^64 neighbourhoods, the largest and smallest finite doubles, integer maxima):
/// a serialiser that takes a short-cut through another number type loses exactly these.
pub fn numeric_extremes() -> Vec<AnyRule> {
    let mut v = vec![];
    let f64s = [
        9007199254740993.0, // 2^53 + 1 (rounds to even)
        9223372036854775807.0,
        9.3e18,
        1.8446744073709552e19,
        1e19,
        1e20,
        1e300,
        f64::MAX,
        f64::MIN_POSITIVE,
        5e-324,
        0.1 + 0.2,
        1e-7,
        123456789.12345679,
        -0.0,
        -1e19,
    ];
    for (i, x) in f64s.iter().enumerate() {
        v.push(AnyRule::Flow(flow::Rule { id: format!("xf{}", i), resource: "c18-res".into(), threshold: *x, ..Default::default() }));
        v.push(AnyRule::Cb(cb::Rule { id: format!("xc{}", i), resource: "c18-res".into(), strategy: cb::BreakerStrategy::ErrorRatio, retry_timeout_ms: 100, min_request_amount: 1, stat_interval_ms: 1000, threshold: *x, ..Default::default() }));
        v.push(AnyRule::Sys(system::Rule { id: format!("xs{}", i), metric_type: system::MetricType::InboundQPS, threshold: *x, ..Default::default() }));
    }
    let u32s = [u32::MAX, u32::MAX - 1, 1 << 31, (1 << 31) - 1, 65536];
    for (i, x) in u32s.iter().enumerate() {
        v.push(AnyRule::Flow(flow::Rule { id: format!("xfu{}", i), resource: "c18-res".into(), threshold: 1.0, stat_interval_ms: *x, max_queueing_time_ms: *x, warm_up_period_sec: *x, warm_up_cold_factor: *x, ..Default::default() }));
        v.push(AnyRule::Cb(cb::Rule { id: format!("xcu{}", i), resource: "c18-res".into(), strategy: cb::BreakerStrategy::SlowRequestRatio, retry_timeout_ms: *x, min_request_amount: *x as u64, stat_interval_ms: *x, stat_sliding_window_bucket_count: *x, max_allowed_rt_ms: *x as u64, threshold: 0.5, ..Default::default() }));
        v.push(AnyRule::Iso(isolation::Rule { id: format!("xi{}", i), resource: "c18-res".into(), threshold: *x, ..Default::default() }));
    }
    let u64s = [u64::MAX, u64::MAX - 1, 1 << 63, (1 << 63) - 1, (1 << 53) + 1, 1 << 32];
    for (i, x) in u64s.iter().enumerate() {
        let mut items = std::collections::HashMap::new();
        items.insert("a".to_string(), *x);
        v.push(AnyRule::Hs(hotspot::Rule {
            id: format!("xh{}", i),
            resource: "c18-res".into(),
            metric_type: hotspot::MetricType::QPS,
            control_strategy: hotspot::ControlStrategy::Reject,
            threshold: *x,
            max_queueing_time_ms: *x,
            burst_count: *x,
            duration_in_sec: *x,
            params_max_capacity: *x as usize,
            param_index: [isize::MAX, isize::MIN, -1, 0, 1 << 40, -(1 << 40)][i],
            specific_items: items,
            ..Default::default()
        }));
        v.push(AnyRule::Flow(flow::Rule { id: format!("xfv{}", i), resource: "c18-res".into(), threshold: 1.0, calculate_strategy: flow::CalculateStrategy::MemoryAdaptive, low_mem_usage_threshold: *x, high_mem_usage_threshold: *x, mem_low_water_mark: *x, mem_high_water_mark: *x, ..Default::default() }));
        v.push(AnyRule::Cb(cb::Rule { id: format!("xcv{}", i), resource: "c18-res".into(), strategy: cb::BreakerStrategy::SlowRequestRatio, retry_timeout_ms: 100, min_request_amount: *x, stat_interval_ms: 1000, max_allowed_rt_ms: *x, threshold: 0.5, ..Default::default() }));
    }
    v
}

pub fn run(o: &Opts, stats: &mut Stats) -> Option<usize> {
    let mut cases: Vec<AnyRule> = all_cases().into_iter().filter(finite).collect();
    let base_len = cases.len();
    cases.extend(numeric_extremes());
    if let Some(path) = &o.replay {
        let v: Value = serde_json::from_str(&std::fs::read_to_string(path).unwrap()).unwrap();
        let r = if let Some(i) = v["config"]["case"].as_u64() {
            let c = with_name(&cases[i as usize], NAMES[v["config"]["name"].as_u64().unwrap() as usize]);
            println!("rule {:?}", c);
            check_any(&c, true, &mut Counts { docs: 0, truncations: 0, not_serialisable: 0 })
        } else {
            let items = metric_items(true);
            check_item(&items[v["config"]["item"].as_u64().unwrap() as usize])
        };
        match r {
            Err(why) => {
                println!("REPLAY-RESULT: violation: {}", why);
                stats.violations.push(Violation { sig: why.split(':').next().unwrap().into(), config: v["config"].clone(), trace: json!({}), why });
            }
            Ok(_) => println!("REPLAY-RESULT: no violation"),
        }
        return None;
    }
    let mut cnt = Counts { docs: 0, truncations: 0, not_serialisable: 0 };
    let stride = if o.thorough { 1 } else { 9 };
    for (i, c) in cases.iter().enumerate() {
        if !o.mine(i) || (i % stride != 0 && i < base_len) {
            continue;
        }
        let ni = i % NAMES.len();
        let c2 = with_name(c, NAMES[ni]);
        // enforcement differential and every-byte truncation on a subset (quick: 1 in 10 of the visited)
        // the numeric extremes are round-tripped only (an entry under a rule with u32::MAX buckets is C12's subject)
        let deep = i < base_len && (o.thorough || (i / stride) % 10 == 0);
        set_now_cfg(json!({"case": i, "name": ni, "rule": format!("{:?}", c2)}).to_string());
        stats.configs += 1;
        stats.executions += 1;
        stats.states.insert(i as u64);
        match check_any(&c2, deep, &mut cnt) {
            Ok(()) => {
                stats.nontrivial += 1;
                if stats.samples.len() < 2 && deep {
                    stats.sample(json!({"rule": format!("{:?}", c2), "checked": "identity through both parsers, dropped/reordered/wrong-typed fields, truncation at every byte, enforcement differential"}));
                }
            }
            Err(why) => {
                if stats.violations.len() < 25 {
                    stats.violations.push(Violation { sig: why.split(':').next().unwrap().into(), config: json!({"case": i, "name": ni, "rule": format!("{:?}", c2)}), trace: json!({}), why });
                }
            }
        }
    }
    let items = metric_items(o.thorough);
    for (i, m) in items.iter().enumerate() {
        if !o.mine(i) {
            continue;
        }
        stats.executions += 1;
        stats.states.insert(1_000_000 + i as u64);
        stats.bump("metric_items", 1);
        if let Err(why) = check_item(m) {
            if stats.violations.len() < 25 {
                stats.violations.push(Violation { sig: why.split(':').next().unwrap().into(), config: json!({"item": i, "fields": format!("{:?}", m.verif_fields())}), trace: json!({}), why });
            }
        } else if stats.samples.len() < 3 {
            stats.sample(json!({"metric_item": format!("{:?}", m.verif_fields()), "line": m.to_string()}));
        }
    }
    stats.transitions += cnt.docs + cnt.truncations;
    stats.bump("documents_parsed", cnt.docs);
    stats.bump("truncated_documents", cnt.truncations);
    stats.bump("rules_not_serialisable_custom_strategy", cnt.not_serialisable);
    None
}
