//! C10 (second part) — field sensitivity of the rule managers.
//!
//! For every rule family and every parameter that takes part in enforcement, a pair (base rule,
//! the same rule with exactly that one parameter changed, same id) is driven through every
//! sequence of length <= 3 over {load_all([x]), load_for_resource([x]), append(x)} with
//! x in {base, variant}. Reference: a replacement leaves exactly {x}, an append adds x. After every
//! operation the rules REPORTED for the resource and the rules WIRED into the checking path
//! (controllers, breakers) are compared with the reference field by field (Debug text), so a
//! manager that takes the variant for the rule it already holds - and keeps enforcing the old
//! parameter - is caught whichever parameter it is.
//!
//! Each base rule is chosen so that the varied parameter matters for enforcement (warm-up fields on
//! a warm-up rule, queueing time on a throttling rule, ...): the variant is a different rule by
//! any reading of rule equality.
use super::{run_configs, Pass};
use crate::common::*;
use crate::explore::Subject;
use crate::sut::*;
use sentinel_core::{circuitbreaker as cb, flow, hotspot, isolation, system};
use serde::{Deserialize, Serialize};
use std::collections::BTreeSet;
use std::sync::Arc;

const RES: &str = "c10f-res";

#[derive(Clone, Debug)]
pub enum AnyR {
    Flow(flow::Rule),
    Cb(cb::Rule),
    Hs(hotspot::Rule),
    Iso(isolation::Rule),
    Sys(system::Rule),
}

/// (family, changed field, base, variant)
pub fn pairs() -> Vec<(&'static str, &'static str, AnyR, AnyR)> {
    let mut v: Vec<(&'static str, &'static str, AnyR, AnyR)> = vec![];
    // ---- flow
    let fb = |f: &dyn Fn(&mut flow::Rule)| {
        let mut r = flow::Rule { id: "x".into(), resource: RES.into(), threshold: 10.0, stat_interval_ms: 1000, ..Default::default() };
        f(&mut r);
        r
    };
    let mut fl = |field: &'static str, base: flow::Rule, ch: &dyn Fn(&mut flow::Rule)| {
        let mut w = base.clone();
        ch(&mut w);
        v.push(("flow", field, AnyR::Flow(base), AnyR::Flow(w)));
    };
    let direct = fb(&|_| {});
    fl("threshold", direct.clone(), &|r| r.threshold = 11.0);
    fl("stat_interval_ms", direct.clone(), &|r| r.stat_interval_ms = 2000);
    fl("control_strategy", direct.clone(), &|r| {
        r.control_strategy = flow::ControlStrategy::Throttling;
    });
    fl("calculate_strategy", direct.clone(), &|r| {
        r.calculate_strategy = flow::CalculateStrategy::WarmUp;
        r.warm_up_period_sec = 10;
        r.warm_up_cold_factor = 3;
    });
    let assoc = fb(&|r| {
        r.relation_strategy = flow::RelationStrategy::Associated;
        r.ref_resource = "c10f-ref-a".into();
    });
    fl("ref_resource", assoc.clone(), &|r| r.ref_resource = "c10f-ref-b".into());
    fl("relation_strategy", assoc.clone(), &|r| r.relation_strategy = flow::RelationStrategy::Current);
    let warm = fb(&|r| {
        r.calculate_strategy = flow::CalculateStrategy::WarmUp;
        r.warm_up_period_sec = 10;
        r.warm_up_cold_factor = 3;
        r.threshold = 100.0;
    });
    fl("warm_up_period_sec", warm.clone(), &|r| r.warm_up_period_sec = 20);
    fl("warm_up_cold_factor", warm.clone(), &|r| r.warm_up_cold_factor = 5);
    let thr = fb(&|r| {
        r.control_strategy = flow::ControlStrategy::Throttling;
        r.max_queueing_time_ms = 100;
    });
    fl("max_queueing_time_ms", thr.clone(), &|r| r.max_queueing_time_ms = 500);
    // the pacing of a throttling rule is derived from threshold and statistic interval
    fl("stat_interval_ms(throttling)", thr.clone(), &|r| r.stat_interval_ms = 5000);
    fl("threshold(throttling)", thr.clone(), &|r| r.threshold = 11.0);
    fl("threshold(warm-up)", warm.clone(), &|r| r.threshold = 120.0);
    fl("stat_interval_ms(associated)", assoc.clone(), &|r| r.stat_interval_ms = 2000);
    let mem = fb(&|r| {
        r.calculate_strategy = flow::CalculateStrategy::MemoryAdaptive;
        r.low_mem_usage_threshold = 100;
        r.high_mem_usage_threshold = 10;
        r.mem_low_water_mark = 1000;
        r.mem_high_water_mark = 2000;
    });
    fl("low_mem_usage_threshold", mem.clone(), &|r| r.low_mem_usage_threshold = 200);
    fl("high_mem_usage_threshold", mem.clone(), &|r| r.high_mem_usage_threshold = 20);
    fl("mem_low_water_mark", mem.clone(), &|r| r.mem_low_water_mark = 1500);
    fl("mem_high_water_mark", mem.clone(), &|r| r.mem_high_water_mark = 3000);
    let memthr = fb(&|r| {
        r.calculate_strategy = flow::CalculateStrategy::MemoryAdaptive;
        r.control_strategy = flow::ControlStrategy::Throttling;
        r.low_mem_usage_threshold = 100;
        r.high_mem_usage_threshold = 10;
        r.mem_low_water_mark = 1000;
        r.mem_high_water_mark = 2000;
        r.max_queueing_time_ms = 100;
    });
    fl("stat_interval_ms(memory-adaptive throttling)", memthr.clone(), &|r| r.stat_interval_ms = 5000);
    // ---- hotspot
    let hb = |f: &dyn Fn(&mut hotspot::Rule)| {
        let mut r = hotspot::Rule { id: "x".into(), resource: RES.into(), metric_type: hotspot::MetricType::QPS, control_strategy: hotspot::ControlStrategy::Reject, threshold: 10, burst_count: 1, duration_in_sec: 1, params_max_capacity: 100, ..Default::default() };
        f(&mut r);
        r
    };
    let mut hs = |field: &'static str, base: hotspot::Rule, ch: &dyn Fn(&mut hotspot::Rule)| {
        let mut w = base.clone();
        ch(&mut w);
        v.push(("hotspot", field, AnyR::Hs(base), AnyR::Hs(w)));
    };
    let rej = hb(&|_| {});
    hs("threshold", rej.clone(), &|r| r.threshold = 11);
    hs("burst_count", rej.clone(), &|r| r.burst_count = 2);
    hs("duration_in_sec", rej.clone(), &|r| r.duration_in_sec = 2);
    hs("params_max_capacity", rej.clone(), &|r| r.params_max_capacity = 200);
    hs("param_index", rej.clone(), &|r| r.param_index = 1);
    hs("param_key", rej.clone(), &|r| r.param_key = "k".into());
    hs("metric_type", rej.clone(), &|r| r.metric_type = hotspot::MetricType::Concurrency);
    hs("control_strategy", rej.clone(), &|r| r.control_strategy = hotspot::ControlStrategy::Throttling);
    hs("specific_items", rej.clone(), &|r| {
        r.specific_items.insert("a".into(), 3);
    });
    let hthr = hb(&|r| {
        r.control_strategy = hotspot::ControlStrategy::Throttling;
        r.max_queueing_time_ms = 100;
    });
    hs("max_queueing_time_ms", hthr.clone(), &|r| r.max_queueing_time_ms = 500);
    // ---- circuit breaker
    let cbb = |f: &dyn Fn(&mut cb::Rule)| {
        let mut r = cb::Rule { id: "x".into(), resource: RES.into(), strategy: cb::BreakerStrategy::SlowRequestRatio, retry_timeout_ms: 1000, min_request_amount: 5, stat_interval_ms: 1000, stat_sliding_window_bucket_count: 2, max_allowed_rt_ms: 50, threshold: 0.5 };
        f(&mut r);
        r
    };
    let mut cbp = |field: &'static str, base: cb::Rule, ch: &dyn Fn(&mut cb::Rule)| {
        let mut w = base.clone();
        ch(&mut w);
        v.push(("cb", field, AnyR::Cb(base), AnyR::Cb(w)));
    };
    let slow = cbb(&|_| {});
    cbp("strategy", slow.clone(), &|r| r.strategy = cb::BreakerStrategy::ErrorRatio);
    cbp("retry_timeout_ms", slow.clone(), &|r| r.retry_timeout_ms = 2000);
    cbp("min_request_amount", slow.clone(), &|r| r.min_request_amount = 6);
    cbp("stat_interval_ms", slow.clone(), &|r| r.stat_interval_ms = 2000);
    cbp("stat_sliding_window_bucket_count", slow.clone(), &|r| r.stat_sliding_window_bucket_count = 4);
    cbp("max_allowed_rt_ms", slow.clone(), &|r| r.max_allowed_rt_ms = 60);
    cbp("threshold", slow.clone(), &|r| r.threshold = 0.6);
    let ec = cbb(&|r| {
        r.strategy = cb::BreakerStrategy::ErrorCount;
        r.threshold = 3.0;
    });
    cbp("threshold(error count)", ec.clone(), &|r| r.threshold = 4.0);
    // ---- isolation
    let ib = isolation::Rule { id: "x".into(), resource: RES.into(), threshold: 3, ..Default::default() };
    let mut iw = ib.clone();
    iw.threshold = 4;
    v.push(("isolation", "threshold", AnyR::Iso(ib), AnyR::Iso(iw)));
    // ---- system
    let sb = system::Rule { id: "x".into(), metric_type: system::MetricType::InboundQPS, threshold: 1000.0, strategy: system::AdaptiveStrategy::NoAdaptive };
    let mut sp = |field: &'static str, ch: &dyn Fn(&mut system::Rule)| {
        let mut w = sb.clone();
        ch(&mut w);
        v.push(("system", field, AnyR::Sys(sb.clone()), AnyR::Sys(w)));
    };
    sp("threshold", &|r| r.threshold = 2000.0);
    sp("metric_type", &|r| r.metric_type = system::MetricType::Concurrency);
    let lb = system::Rule { id: "x".into(), metric_type: system::MetricType::Load, threshold: 0.5, strategy: system::AdaptiveStrategy::NoAdaptive };
    let mut lw = lb.clone();
    lw.strategy = system::AdaptiveStrategy::BBR;
    v.push(("system", "strategy", AnyR::Sys(lb), AnyR::Sys(lw)));
    v
}

#[derive(Serialize, Deserialize, Clone, Debug)]
pub struct Cfg {
    pub family: String,
    pub field: String,
    /// index into `pairs()`
    pub pair: usize,
}

#[derive(Clone, Copy, Debug, PartialEq)]
pub enum How {
    LoadAll,
    LoadRes,
    Append,
}
#[derive(Clone, Debug)]
pub struct Op {
    how: How,
    variant: bool,
}

pub struct C10f {
    base: AnyR,
    variant: AnyR,
    /// reference: Debug texts of the rules that must be held
    want: BTreeSet<String>,
    replaced_by_other: u64,
    appended_other: u64,
}

fn text(r: &AnyR) -> String {
    match r {
        AnyR::Flow(x) => format!("{:?}", x),
        AnyR::Cb(x) => format!("{:?}", x),
        AnyR::Hs(x) => canon_hs(x),
        AnyR::Iso(x) => format!("{:?}", x),
        AnyR::Sys(x) => format!("{:?}", x),
    }
}
/// Debug text of a hotspot rule with its override table in sorted order
fn canon_hs(x: &hotspot::Rule) -> String {
    let mut items: Vec<(&String, &u64)> = x.specific_items.iter().collect();
    items.sort();
    let mut y = x.clone();
    y.specific_items.clear();
    format!("{:?} items={:?}", y, items)
}

impl C10f {
    pub fn new(c: &Cfg) -> Self {
        let (_, _, b, w) = pairs().swap_remove(c.pair);
        C10f { base: b, variant: w, want: BTreeSet::new(), replaced_by_other: 0, appended_other: 0 }
    }
    fn reported(&self) -> (Vec<String>, Option<Vec<String>>) {
        let res = RES.to_string();
        match &self.base {
            AnyR::Flow(_) => (flow::get_rules_of_resource(&res).iter().map(|r| format!("{:?}", r)).collect(), Some(flow::get_traffic_controller_list_for(&res).iter().map(|c| format!("{:?}", c.rule())).collect())),
            AnyR::Hs(_) => (hotspot::get_rules_of_resource(&res).iter().map(|r| canon_hs(r)).collect(), Some(hotspot::get_traffic_controller_list_for(&res).iter().map(|c| canon_hs(c.rule())).collect())),
            AnyR::Cb(_) => (cb::get_rules_of_resource(&res).iter().map(|r| format!("{:?}", r)).collect(), Some(cb::get_breakers_of_resource(&res).iter().map(|b| format!("{:?}", b.bound_rule())).collect())),
            AnyR::Iso(_) => (isolation::get_rules_of_resource(&res).iter().map(|r| format!("{:?}", r)).collect(), None),
            AnyR::Sys(_) => (system::get_rules().iter().map(|r| format!("{:?}", r)).collect(), None),
        }
    }
}

impl Subject for C10f {
    type Op = Op;
    fn reset(&mut self) {
        reset_world(T0_MS);
        self.want.clear();
        self.replaced_by_other = 0;
        self.appended_other = 0;
    }
    fn enabled(&self) -> Vec<Op> {
        let mut v = vec![];
        for variant in [false, true] {
            for how in [How::LoadAll, How::LoadRes, How::Append] {
                if how == How::LoadRes && matches!(self.base, AnyR::Sys(_)) {
                    continue;
                }
                v.push(Op { how, variant });
            }
        }
        v
    }
    fn step(&mut self, op: &Op) -> Result<(), String> {
        let r = if op.variant { self.variant.clone() } else { self.base.clone() };
        let t = text(&r);
        let res = RES.to_string();
        let had_other = self.want.iter().any(|x| *x != t);
        match (&r, op.how) {
            (AnyR::Flow(x), How::LoadAll) => {
                flow::load_rules(vec![Arc::new(x.clone())]);
            }
            (AnyR::Flow(x), How::LoadRes) => {
                let _ = flow::load_rules_of_resource(&res, vec![Arc::new(x.clone())]);
            }
            (AnyR::Flow(x), How::Append) => {
                flow::append_rule(Arc::new(x.clone()));
            }
            (AnyR::Hs(x), How::LoadAll) => {
                hotspot::load_rules(vec![Arc::new(x.clone())]);
            }
            (AnyR::Hs(x), How::LoadRes) => {
                let _ = hotspot::load_rules_of_resource(&res, vec![Arc::new(x.clone())]);
            }
            (AnyR::Hs(x), How::Append) => {
                hotspot::append_rule(Arc::new(x.clone()));
            }
            (AnyR::Cb(x), How::LoadAll) => {
                cb::load_rules(vec![Arc::new(x.clone())]);
            }
            (AnyR::Cb(x), How::LoadRes) => {
                let _ = cb::load_rules_of_resource(&res, vec![Arc::new(x.clone())]);
            }
            (AnyR::Cb(x), How::Append) => {
                cb::append_rule(Arc::new(x.clone()));
            }
            (AnyR::Iso(x), How::LoadAll) => {
                isolation::load_rules(vec![Arc::new(x.clone())]);
            }
            (AnyR::Iso(x), How::LoadRes) => {
                let _ = isolation::load_rules_of_resource(&res, vec![Arc::new(x.clone())]);
            }
            (AnyR::Iso(x), How::Append) => {
                isolation::append_rule(Arc::new(x.clone()));
            }
            (AnyR::Sys(x), How::Append) => {
                system::append_rule(Arc::new(x.clone()));
            }
            (AnyR::Sys(x), _) => {
                system::load_rules(vec![Arc::new(x.clone())]);
            }
        }
        if op.how == How::Append {
            if had_other && !self.want.contains(&t) {
                self.appended_other += 1;
            }
            self.want.insert(t.clone());
        } else {
            if had_other {
                self.replaced_by_other += 1;
            }
            self.want.clear();
            self.want.insert(t.clone());
        }
        let (rep, wired) = self.reported();
        let as_set = |v: &Vec<String>| -> BTreeSet<String> { v.iter().cloned().collect() };
        if as_set(&rep) != self.want {
            return Err(format!("reported-rules: after {:?} of the {} the manager reports {:?}, the rules given are {:?}", op.how, if op.variant { "variant" } else { "base rule" }, rep, self.want));
        }
        if let Some(w) = wired {
            if as_set(&w) != self.want {
                return Err(format!("wired-rules: after {:?} of the {} the checking path holds {:?}, the rules given are {:?}", op.how, if op.variant { "variant" } else { "base rule" }, w, self.want));
            }
        }
        Ok(())
    }
    fn nontrivial(&self) -> bool {
        self.replaced_by_other >= 1 || self.appended_other >= 1
    }
    fn outcome(&self) -> String {
        format!("r{}a{}", self.replaced_by_other.min(2), self.appended_other.min(2))
    }
    fn counters(&self) -> Vec<(&'static str, u64)> {
        vec![("one_field_variant_replaced_its_base", self.replaced_by_other), ("one_field_variant_appended_next_to_its_base", self.appended_other)]
    }
    fn sig(&self, why: &str) -> String {
        format!("field-sensitivity:{}", why.split(':').next().unwrap_or(""))
    }
}

pub fn configs() -> Vec<Cfg> {
    pairs().iter().enumerate().map(|(i, (fam, field, _, _))| Cfg { family: fam.to_string(), field: field.to_string(), pair: i }).collect()
}

pub fn run(o: &Opts, stats: &mut Stats) -> Option<usize> {
    let cfgs = configs();
    run_configs(o, stats, &cfgs, |c, _| C10f::new(c), &|_c: &Cfg| vec![Pass { depth: 3, max_dev: 3 }])
}
