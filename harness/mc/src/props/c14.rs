//! C14 — concurrent entries share one statistics node, accounted without loss or excess.
use crate::common::*;
use crate::sched::*;
use sentinel_core::base::{ConcurrencyStat, MetricEvent, ReadStat, TrafficType};
use sentinel_core::{stat, EntryBuilder};
use sentinel_verif_rt::clock;
use std::sync::{Arc, Mutex};

#[derive(Clone, Copy, Debug, PartialEq)]
pub enum ClockMode {
    Fixed,
    StepBucket,
    StepRing,
    /// the clock is advanced by a whole ring BEFORE the threads start (existing resource): every
    /// thread finds the slot holding a stale bucket with counts and they recycle it concurrently
    RingBefore,
}

fn body(threads: usize, pairs: usize, fresh: bool, inbound: bool, cm: ClockMode, batch: u32) -> Body {
    Arc::new(move || {
        clock::set_ms(T0_MS + 250);
        let res = "c14-res".to_string();
        let tt = if inbound { TrafficType::Inbound } else { TrafficType::Outbound };
        let mut pre = 0u64;
        if !fresh {
            // RingBefore: the stale bucket holds MORE than the threads will add, so that a count
            // taken out twice shows as an excess (a wrapped counter) and not as a miss
            let pre_batch = if cm == ClockMode::RingBefore { 7 } else { batch };
            let e = EntryBuilder::new(res.clone()).with_traffic_type(tt).with_batch_count(pre_batch).build().expect("no rules loaded");
            e.exit();
            pre = pre_batch as u64;
        }
        if cm == ClockMode::RingBefore {
            clock::advance_ms(10_000);
            // the stale bucket's counts are outside every window now
            pre = 0;
        }
        let ptrs: Arc<Mutex<Vec<usize>>> = Arc::new(Mutex::new(vec![]));
        let mut hs = vec![];
        for _ in 0..threads {
            let res = res.clone();
            let ptrs = ptrs.clone();
            hs.push(shuttle::thread::spawn(move || {
                for _ in 0..pairs {
                    let e = EntryBuilder::new(res.clone()).with_traffic_type(tt).with_batch_count(batch).build().expect("no rules loaded: every entry must pass");
                    let node = e.context().read().unwrap().stat_node().expect("entry without statistics node");
                    ptrs.lock().unwrap().push(Arc::as_ptr(&node) as *const () as usize);
                    drop(node);
                    e.exit();
                }
            }));
        }
        if cm == ClockMode::StepBucket || cm == ClockMode::StepRing {
            let d = if cm == ClockMode::StepBucket { 500 } else { 10_000 };
            hs.push(shuttle::thread::spawn(move || clock::advance_ms(d)));
        }
        for h in hs {
            h.join().unwrap();
        }
        let node = stat::get_resource_node(&res).expect("ORACLE: no-node: resource node missing after entries");
        let p0 = Arc::as_ptr(&node) as *const () as usize;
        let seen = ptrs.lock().unwrap().clone();
        let total = (threads * pairs) as u64 * batch as u64 + pre;
        let distinct: std::collections::BTreeSet<usize> = seen.iter().copied().collect();
        let inflight = node.current_concurrency();
        let arr = node.verif_global_array();
        let now = clock::get_ms();
        let pass = arr.count_with_time(now, MetricEvent::Pass);
        let comp = arr.count_with_time(now, MetricEvent::Complete);
        outcome(format!("nodes={} inflight={} pass={}/{} complete={}/{}", distinct.len(), inflight, pass, total, comp, total));
        if distinct.len() != 1 || !distinct.contains(&p0) {
            panic!("ORACLE: split-node: entries of one resource were accounted on {} different statistics nodes (registered node seen by {} of {} entries)", distinct.len().max(1), seen.iter().filter(|p| **p == p0).count(), seen.len());
        }
        if inflight != 0 {
            panic!("ORACLE: inflight: in-flight count is {} after every entry exited", inflight);
        }
        let check = |name: &str, pass: u64, comp: u64, rt: u64, total: u64, conc: u32| {
            if conc != 0 {
                panic!("ORACLE: inflight-{}: in-flight count is {} after every entry exited", name, conc);
            }
            if cm == ClockMode::Fixed {
                if pass != total || comp != total || rt != 0 {
                    panic!("ORACLE: totals-{}: pass={} complete={} rt={} but {} tokens passed and completed inside one bucket", name, pass, comp, rt, total);
                }
            } else if pass > total || comp > total {
                panic!("ORACLE: excess-{}: pass={} complete={} exceed the {} tokens recorded", name, pass, comp, total);
            }
        };
        check("node", pass, comp, arr.count_with_time(now, MetricEvent::Rt) * if cm == ClockMode::Fixed { 1 } else { 0 }, total, inflight);
        if cm == ClockMode::Fixed {
            // the default 1 s reader sees the same
            if node.sum(MetricEvent::Pass) != total || node.sum(MetricEvent::Complete) != total {
                panic!("ORACLE: reader-totals: default reader pass={} complete={} want {}", node.sum(MetricEvent::Pass), node.sum(MetricEvent::Complete), total);
            }
        }
        let ib = stat::inbound_node();
        let iarr = ib.verif_global_array();
        let (ipass, icomp) = (iarr.count_with_time(now, MetricEvent::Pass), iarr.count_with_time(now, MetricEvent::Complete));
        if inbound {
            check("inbound", ipass, icomp, 0, total, ib.current_concurrency());
        } else if ipass != 0 || icomp != 0 || ib.current_concurrency() != 0 {
            panic!("ORACLE: inbound-mirror: outbound entries were mirrored on the inbound node (pass={} complete={})", ipass, icomp);
        }
    })
}

/// Entries built one after the other at t0, the clock advanced by `rt_ms` (still inside the
/// bucket), then exited by `threads` threads at the same time: the completion and RESPONSE-TIME
/// totals must be the sums over the threads (minimum response time = rt_ms).
fn exits_with_rt(threads: usize, inbound: bool, rt_ms: u64, second_bucket: bool) -> Body {
    Arc::new(move || {
        clock::set_ms(T0_MS + 250);
        let res = "c14-res".to_string();
        let tt = if inbound { TrafficType::Inbound } else { TrafficType::Outbound };
        let entries: Vec<_> = (0..threads).map(|_| EntryBuilder::new(res.clone()).with_traffic_type(tt).build().expect("no rules loaded")).collect();
        // exits land in the bucket of the builds, or in the next (never used) bucket
        clock::advance_ms(if second_bucket { 250 + rt_ms } else { rt_ms });
        let rt_each = if second_bucket { 250 + rt_ms } else { rt_ms };
        let hs: Vec<_> = entries.into_iter().map(|e| shuttle::thread::spawn(move || e.exit())).collect();
        for h in hs {
            h.join().unwrap();
        }
        let node = stat::get_resource_node(&res).expect("ORACLE: no-node: resource node missing after entries");
        let arr = node.verif_global_array();
        let now = clock::get_ms();
        let n = threads as u64;
        let check = |name: &str, pass: u64, comp: u64, rt: u64, conc: u32| {
            if conc != 0 || pass != n || comp != n || rt != n * rt_each {
                panic!("ORACLE: rt-totals-{}: pass={} complete={} rt={} in-flight={} but {} entries passed and completed with a response time of {} ms each", name, pass, comp, rt, conc, n, rt_each);
            }
        };
        check("node", arr.count_with_time(now, MetricEvent::Pass), arr.count_with_time(now, MetricEvent::Complete), arr.count_with_time(now, MetricEvent::Rt), node.current_concurrency());
        let min = node.min_rt();
        if (min - rt_each as f64).abs() > 1e-9 {
            panic!("ORACLE: min-rt: minimum response time reads {} but every entry took {} ms", min, rt_each);
        }
        outcome(format!("rt={} min={}", arr.count_with_time(now, MetricEvent::Rt), min));
        if inbound {
            let ib = stat::inbound_node();
            let iarr = ib.verif_global_array();
            check("inbound", iarr.count_with_time(now, MetricEvent::Pass), iarr.count_with_time(now, MetricEvent::Complete), iarr.count_with_time(now, MetricEvent::Rt), ib.current_concurrency());
        }
    })
}

pub fn scenarios(thorough: bool) -> Vec<Scenario> {
    let mut v = vec![];
    let mut extra: Vec<Scenario> = vec![];
    // concurrent recycling of a stale bucket that holds counts
    for inb in [false, true] {
        if !thorough && inb {
            continue;
        }
        extra.push(Scenario { name: format!("T2xP1-existing-{}-RingBefore-b1", if inb { "in" } else { "out" }), bound: if thorough { 3 } else { 2 }, cap: 0, body: body(2, 1, false, inb, ClockMode::RingBefore, 1) });
    }
    if thorough {
        extra.push(Scenario { name: "T3xP1-existing-out-RingBefore-b2".into(), bound: 2, cap: 0, body: body(3, 1, false, false, ClockMode::RingBefore, 2) });
    }
    // concurrent exits with a non-zero response time
    extra.push(Scenario { name: "exits-rt5-T2-out-same-bucket".into(), bound: 2, cap: 0, body: exits_with_rt(2, false, 5, false) });
    extra.push(Scenario { name: "exits-rt5-T2-in-next-bucket".into(), bound: if thorough { 2 } else { 1 }, cap: 0, body: exits_with_rt(2, true, 5, true) });
    if thorough {
        extra.push(Scenario { name: "exits-rt5-T3-out-same-bucket".into(), bound: 2, cap: 0, body: exits_with_rt(3, false, 5, false) });
        extra.push(Scenario { name: "exits-rt7-T2-in-same-bucket".into(), bound: 3, cap: 0, body: exits_with_rt(2, true, 7, false) });
    }
    let mut add = |t: usize, p: usize, fresh: bool, inb: bool, cm: ClockMode, batch: u32, bound: u8| {
        v.push(Scenario {
            name: format!("T{}xP{}-{}-{}-{:?}-b{}", t, p, if fresh { "fresh" } else { "existing" }, if inb { "in" } else { "out" }, cm, batch),
            bound,
            cap: 0,
            body: body(t, p, fresh, inb, cm, batch),
        });
    };
    for fresh in [true, false] {
        for inb in [false, true] {
            for cm in [ClockMode::Fixed, ClockMode::StepBucket, ClockMode::StepRing] {
                // quick: the clock-step variants only on fresh-inbound and existing-outbound
                if !thorough && cm != ClockMode::Fixed && fresh != inb {
                    continue;
                }
                // quick: the clock-step variants on a fresh inbound resource (the longest
                // executions) at bound 1, everything else at bound 2
                let bound = if thorough {
                    3
                } else if cm != ClockMode::Fixed && fresh {
                    1
                } else {
                    2
                };
                add(2, 1, fresh, inb, cm, 1, bound);
            }
        }
    }
    // batch > 1 on a fresh inbound resource
    add(2, 1, true, true, ClockMode::Fixed, 3, 2);
    if thorough {
        for fresh in [true, false] {
            for inb in [false, true] {
                add(3, 1, fresh, inb, ClockMode::Fixed, 1, 2);
                add(2, 2, fresh, inb, ClockMode::Fixed, 1, 2);
            }
            add(3, 1, fresh, true, ClockMode::StepRing, 1, 2);
            add(2, 2, fresh, true, ClockMode::StepRing, 2, 2);
        }
    }
    // the node registry is cleared (stat::reset_resource_map) after the resource has been used by
    // this very OS thread: the threads' entries must all land on the newly registered node. Every
    // execution of this scenario runs on its own OS thread (see sched.rs), so whatever the library
    // keeps per thread starts blank and is warmed inside the execution itself.
    extra.push(Scenario { name: format!("{}T2xP1-after-registry-reset-out-Fixed-b1", OWN_THREAD), bound: if thorough { 2 } else { 1 }, cap: 0, body: after_registry_reset(body(2, 1, true, false, ClockMode::Fixed, 1)) });
    v.extend(extra);
    v
}

fn after_registry_reset(inner: Body) -> Body {
    Arc::new(move || {
        clock::set_ms(T0_MS + 250);
        let e = EntryBuilder::new("c14-res".to_string()).with_traffic_type(TrafficType::Outbound).build().expect("no rules loaded");
        e.exit();
        stat::reset_resource_map();
        inner()
    })
}

pub fn run(o: &Opts, stats: &mut Stats) -> Option<usize> {
    run_scenarios(o, stats, scenarios(o.thorough))
}
