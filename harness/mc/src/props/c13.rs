//! C13 — slot chain contract: ordered run, block iff a check blocked, one notification.
use crate::common::*;
use sentinel_core::base::{BaseSlot, BlockError, BlockType, EntryContext, RuleCheckSlot, SlotChain, StatPrepareSlot, StatSlot, TokenResult};
use sentinel_core::EntryBuilder;
use serde::{Deserialize, Serialize};
use serde_json::json;
use std::sync::{Arc, Mutex};

#[derive(Serialize, Deserialize, Clone, Copy, Debug, PartialEq)]
pub enum Res {
    Pass,
    BlockFlow,
    BlockOther,
    Wait,
}

#[derive(Serialize, Deserialize, Clone, Debug)]
pub struct Cfg {
    /// order values, in insertion order
    pub preps: Vec<u32>,
    /// (order value, result), in insertion order
    pub checks: Vec<(u32, Res)>,
    pub stats: Vec<u32>,
    /// the caller records a business error on the admitted entry before exit (completion is still due)
    #[serde(default)]
    pub traced_error: bool,
    /// batch count of the entry (None = the builder's default of 1); the contract does not depend on it
    #[serde(default)]
    pub batch: Option<u32>,
    /// the chain is driven directly (SlotChain::entry) and entered a SECOND time with the same
    /// context; in the second attempt no check slot blocks: the outcome must follow the checks of
    /// that attempt
    #[serde(default)]
    pub reenter: bool,
}

type Log = Arc<Mutex<Vec<String>>>;

struct Prep(usize, u32, Log);
impl BaseSlot for Prep {
    fn order(&self) -> u32 {
        self.1
    }
}
impl StatPrepareSlot for Prep {
    fn prepare(&self, _ctx: &mut EntryContext) {
        self.2.lock().unwrap().push(format!("prep:{}", self.0));
    }
}
/// 0 during the first attempt; from the second attempt on every check slot passes
static ATTEMPT: std::sync::atomic::AtomicUsize = std::sync::atomic::AtomicUsize::new(0);
struct Check(usize, u32, Res, Log);
impl BaseSlot for Check {
    fn order(&self) -> u32 {
        self.1
    }
}
impl RuleCheckSlot for Check {
    fn check(&self, _ctx: &mut EntryContext) -> TokenResult {
        self.3.lock().unwrap().push(format!("check:{}", self.0));
        if ATTEMPT.load(std::sync::atomic::Ordering::SeqCst) > 0 {
            return TokenResult::new_pass();
        }
        match self.2 {
            Res::Pass => TokenResult::new_pass(),
            Res::Wait => TokenResult::new_should_wait(1),
            Res::BlockFlow => TokenResult::new_blocked_with_msg(BlockType::Flow, format!("slot{}", self.0)),
            Res::BlockOther => TokenResult::new_blocked_with_msg(BlockType::Other(7), format!("slot{}", self.0)),
        }
    }
}
struct Stat(usize, u32, Log);
impl BaseSlot for Stat {
    fn order(&self) -> u32 {
        self.1
    }
}
impl StatSlot for Stat {
    fn on_entry_pass(&self, _ctx: &EntryContext) {
        self.2.lock().unwrap().push(format!("pass:{}", self.0));
    }
    fn on_entry_blocked(&self, _ctx: &EntryContext, e: BlockError) {
        self.2.lock().unwrap().push(format!("blocked:{}:{}", self.0, e.block_msg()));
    }
    fn on_completed(&self, _ctx: &mut EntryContext) {
        self.2.lock().unwrap().push(format!("completed:{}", self.0));
    }
}

/// the re-entered variant: see `Cfg::reenter`
fn run_reentered(c: &Cfg) -> Result<(usize, String), String> {
    use sentinel_core::base::{ResourceType, ResourceWrapper, SentinelEntry, TrafficType};
    ATTEMPT.store(0, std::sync::atomic::Ordering::SeqCst);
    let log: Log = Arc::new(Mutex::new(vec![]));
    let mut sc = SlotChain::new();
    let n = c.preps.len().max(c.checks.len()).max(c.stats.len());
    for i in 0..n {
        if i < c.stats.len() {
            sc.add_stat_slot(Arc::new(Stat(i, c.stats[i], log.clone())));
        }
        if i < c.checks.len() {
            sc.add_rule_check_slot(Arc::new(Check(i, c.checks[i].0, c.checks[i].1, log.clone())));
        }
        if i < c.preps.len() {
            sc.add_stat_prepare_slot(Arc::new(Prep(i, c.preps[i], log.clone())));
        }
    }
    let sc = Arc::new(sc);
    let mut ctx = EntryContext::new();
    ctx.set_resource(ResourceWrapper::new("c13-res".into(), ResourceType::Common, TrafficType::Outbound));
    let ctx = Arc::new(sentinel_verif_rt::sync::RwLock::new(ctx));
    let entry = Arc::new(sentinel_verif_rt::sync::RwLock::new(SentinelEntry::new(ctx.clone(), sc.clone())));
    ctx.write().unwrap().set_entry(Arc::downgrade(&entry));
    let blockers = c.checks.iter().filter(|x| matches!(x.1, Res::BlockFlow | Res::BlockOther)).count();
    let r0 = sc.entry(ctx.clone());
    if r0.is_blocked() != (blockers > 0) {
        ATTEMPT.store(0, std::sync::atomic::Ordering::SeqCst);
        return Err(format!("first-attempt: {} check slots blocked, result {}", blockers, r0));
    }
    entry.read().unwrap().exit();
    let first = std::mem::take(&mut *log.lock().unwrap());
    // second attempt on the same context: nobody blocks
    ATTEMPT.store(1, std::sync::atomic::Ordering::SeqCst);
    let r1 = sc.entry(ctx.clone());
    entry.read().unwrap().exit();
    ATTEMPT.store(0, std::sync::atomic::Ordering::SeqCst);
    let second = std::mem::take(&mut *log.lock().unwrap());
    if r1.is_blocked() {
        return Err(format!("reentered-blocked: second attempt on the same context: no check slot blocked, yet the result is {}; calls {:?}", r1, second));
    }
    let (np, nc, ns) = (c.preps.len(), c.checks.len(), c.stats.len());
    let passes = second.iter().filter(|e| e.starts_with("pass:")).count();
    let completed = second.iter().filter(|e| e.starts_with("completed:")).count();
    let blocked = second.iter().filter(|e| e.starts_with("blocked:")).count();
    if second.len() != np + nc + 2 * ns || passes != ns || completed != ns || blocked != 0 {
        return Err(format!("reentered-notifications: second attempt (nobody blocks) on the same context produced {:?} for {} prepare, {} check and {} statistic slots", second, np, nc, ns));
    }
    Ok((first.len() + second.len(), "reentered".into()))
}

pub fn run_one(c: &Cfg) -> Result<(usize, String), String> {
    if c.reenter {
        return run_reentered(c);
    }
    let log: Log = Arc::new(Mutex::new(vec![]));
    let mut sc = SlotChain::new();
    // add in an interleaved order: kinds must not disturb each other
    let n = c.preps.len().max(c.checks.len()).max(c.stats.len());
    for i in 0..n {
        if i < c.stats.len() {
            sc.add_stat_slot(Arc::new(Stat(i, c.stats[i], log.clone())));
        }
        if i < c.checks.len() {
            sc.add_rule_check_slot(Arc::new(Check(i, c.checks[i].0, c.checks[i].1, log.clone())));
        }
        if i < c.preps.len() {
            sc.add_stat_prepare_slot(Arc::new(Prep(i, c.preps[i], log.clone())));
        }
    }
    let mut b = EntryBuilder::new("c13-res".into()).with_slot_chain(Arc::new(sc));
    if let Some(n) = c.batch {
        b = b.with_batch_count(n);
    }
    let r = b.build();
    let after_build = log.lock().unwrap().clone();
    let blockers: Vec<usize> = c.checks.iter().enumerate().filter(|(_, x)| matches!(x.1, Res::BlockFlow | Res::BlockOther)).map(|(i, _)| i).collect();
    // 1. groups in order, each slot exactly once, ascending order values inside a group
    let np = c.preps.len();
    let nc = c.checks.len();
    let ns = c.stats.len();
    if after_build.len() != np + nc + ns {
        return Err(format!("call-count: {} slot calls for {} slots: {:?}", after_build.len(), np + nc + ns, after_build));
    }
    let idx = |s: &str| s.split(':').nth(1).unwrap().parse::<usize>().unwrap();
    let group = |lo: usize, hi: usize, prefix: &[&str], orders: &dyn Fn(usize) -> u32| -> Result<Vec<usize>, String> {
        let mut seen = vec![];
        let mut last = 0u32;
        for e in &after_build[lo..hi] {
            if !prefix.iter().any(|p| e.starts_with(p)) {
                return Err(format!("phase-order: call {} outside its phase: {:?}", e, after_build));
            }
            let i = idx(e);
            if seen.contains(&i) {
                return Err(format!("called-twice: {}: {:?}", e, after_build));
            }
            seen.push(i);
            if orders(i) < last {
                return Err(format!("slot-order: {} (order {}) ran after a slot of order {}: {:?}", e, orders(i), last, after_build));
            }
            last = orders(i);
        }
        Ok(seen)
    };
    group(0, np, &["prep:"], &|i| c.preps[i])?;
    group(np, np + nc, &["check:"], &|i| c.checks[i].0)?;
    group(np + nc, np + nc + ns, &["pass:", "blocked:"], &|i| c.stats[i])?;
    // 2. blocked iff at least one check blocked; the error is one a blocking slot produced
    let delivered: Option<String> = match &r {
        Ok(_) => None,
        Err(e) => Some(parse_block(&e.to_string()).msg),
    };
    match (&delivered, blockers.is_empty()) {
        (None, true) | (Some(_), false) => {}
        (None, false) => return Err(format!("admitted-although-blocked: check slots {:?} blocked but the entry was admitted: {:?}", blockers, after_build)),
        (Some(m), true) => return Err(format!("blocked-without-blocker: no check slot blocked but the entry was rejected with {:?}", m)),
    }
    if let Some(m) = &delivered {
        if !blockers.iter().any(|b| &format!("slot{}", b) == m) {
            return Err(format!("foreign-error: delivered error {:?} was not produced by a blocking slot {:?}", m, blockers));
        }
    }
    // 3. statistic slots: one pass-or-blocked notification each, carrying that error
    for e in &after_build[np + nc..] {
        match &delivered {
            None if !e.starts_with("pass:") => return Err(format!("stat-notification: admitted entry but {}", e)),
            Some(m) if e != &format!("blocked:{}:{}", idx(e), m) => return Err(format!("stat-notification: rejected with {} but stat slot saw {}", m, e)),
            _ => {}
        }
    }
    // 4. completion exactly once on exit iff passed
    if let Ok(e) = &r {
        if c.traced_error {
            e.set_err(sentinel_core::Error::msg("business error"));
        }
        e.exit();
    }
    let all = log.lock().unwrap().clone();
    let completed: Vec<&String> = all[np + nc + ns..].iter().collect();
    if delivered.is_some() {
        if !completed.is_empty() {
            return Err(format!("completed-although-blocked: {:?}", completed));
        }
    } else {
        let mut seen = vec![];
        let mut last = 0;
        for e in &completed {
            if !e.starts_with("completed:") || seen.contains(&idx(e)) {
                return Err(format!("completion: unexpected {:?} in {:?}", e, completed));
            }
            seen.push(idx(e));
            if c.stats[idx(e)] < last {
                return Err(format!("completion-order: {:?}", completed));
            }
            last = c.stats[idx(e)];
        }
        if seen.len() != ns {
            return Err(format!("completion-count: {} of {} statistic slots were notified of completion: {:?}", seen.len(), ns, completed));
        }
    }
    Ok((all.len(), if delivered.is_some() { "blocked".into() } else { "passed".into() }))
}

fn seqs<T: Clone>(alphabet: &[T], max_len: usize) -> Vec<Vec<T>> {
    let mut out: Vec<Vec<T>> = vec![vec![]];
    let mut level: Vec<Vec<T>> = vec![vec![]];
    for _ in 0..max_len {
        let mut next = vec![];
        for s in &level {
            for a in alphabet {
                let mut t = s.clone();
                t.push(a.clone());
                next.push(t);
            }
        }
        out.extend(next.iter().cloned());
        level = next;
    }
    out
}

pub fn configs(thorough: bool) -> Vec<Cfg> {
    let k = if thorough { 4 } else { 3 };
    let orders = [1u32, 2, 3];
    let mut check_alpha = vec![];
    for o in orders {
        for r in [Res::Pass, Res::BlockFlow, Res::BlockOther, Res::Wait] {
            check_alpha.push((o, r));
        }
    }
    let mut v = vec![];
    // each kind varied fully against a fixed shape of the others
    for checks in seqs(&check_alpha, k) {
        v.push(Cfg { preps: vec![2], checks, stats: vec![2, 1], traced_error: false, batch: None, reenter: false });
    }
    for preps in seqs(&orders, 4) {
        v.push(Cfg { preps, checks: vec![(2, Res::Pass), (1, Res::BlockFlow)], stats: vec![1, 1], traced_error: false, batch: None, reenter: false });
    }
    for stats in seqs(&orders, 4) {
        v.push(Cfg { preps: vec![1], checks: vec![(2, Res::BlockOther), (1, Res::Pass)], stats: stats.clone(), traced_error: false, batch: None, reenter: false });
        v.push(Cfg { preps: vec![1], checks: vec![(2, Res::Wait), (1, Res::Pass)], stats, traced_error: false, batch: None, reenter: false });
    }
    // jointly for up to 2 slots per kind
    for preps in seqs(&orders, 2) {
        for checks in seqs(&check_alpha, 2) {
            for stats in seqs(&orders, 2) {
                v.push(Cfg { preps: preps.clone(), checks: checks.clone(), stats, traced_error: false, batch: None, reenter: false });
            }
        }
    }
    // the jointly varied chains again with the order values at the ends of their type
    // (1, 2, 3 -> 0, 7, u32::MAX: a monotone renaming, nothing else may change)
    let ext = |o: u32| match o {
        1 => 0,
        2 => 7,
        _ => u32::MAX,
    };
    let extreme: Vec<Cfg> = v
        .iter()
        .filter(|c| c.preps.len() <= 2 && c.checks.len() <= 2 && c.stats.len() <= 2)
        .map(|c| Cfg { preps: c.preps.iter().map(|o| ext(*o)).collect(), checks: c.checks.iter().map(|(o, r)| (ext(*o), *r)).collect(), stats: c.stats.iter().map(|o| ext(*o)).collect(), ..c.clone() })
        .collect();
    v.extend(extreme);
    // every chain again with a business error traced on the admitted entry
    let traced: Vec<Cfg> = v.iter().filter(|c| !c.checks.iter().any(|x| matches!(x.1, Res::BlockFlow | Res::BlockOther))).map(|c| Cfg { traced_error: true, ..c.clone() }).collect();
    v.extend(traced);
    // the jointly varied chains again with batch counts 0 and 3
    let batched: Vec<Cfg> = v.iter().filter(|c| !c.traced_error && c.preps.len() <= 2 && c.checks.len() <= 2 && c.stats.len() <= 2).flat_map(|c| [0u32, 3].into_iter().map(move |n| Cfg { batch: Some(n), ..c.clone() })).collect();
    v.extend(batched);
    // the jointly varied chains with at least one blocking check, entered twice with one context
    let again: Vec<Cfg> = v
        .iter()
        .filter(|c| !c.traced_error && c.batch.is_none() && c.preps.len() <= 2 && c.checks.len() <= 2 && c.stats.len() <= 2 && c.checks.iter().any(|x| matches!(x.1, Res::BlockFlow | Res::BlockOther)))
        .map(|c| Cfg { reenter: true, ..c.clone() })
        .collect();
    v.extend(again);
    v
}

pub fn run(o: &Opts, stats: &mut Stats) -> Option<usize> {
    if let Some(path) = &o.replay {
        let v: serde_json::Value = serde_json::from_str(&std::fs::read_to_string(path).unwrap()).unwrap();
        let cfg: Cfg = serde_json::from_value(v["config"].clone()).unwrap();
        let (a, b) = (run_one(&cfg), run_one(&cfg));
        if a.is_err() != b.is_err() {
            eprintln!("MACHINERY: replay not deterministic");
            std::process::exit(2);
        }
        match a {
            Err(why) => {
                println!("REPLAY-RESULT: violation: {}", why);
                stats.violations.push(Violation { sig: why.split(':').next().unwrap().into(), config: v["config"].clone(), trace: json!({}), why });
            }
            Ok(_) => println!("REPLAY-RESULT: no violation"),
        }
        return None;
    }
    for (i, c) in configs(o.thorough).iter().enumerate() {
        if !o.mine(i) {
            continue;
        }
        set_now_cfg(serde_json::to_string(c).unwrap());
        stats.configs += 1;
        stats.executions += 1;
        stats.states.insert(i as u64);
        let r = std::panic::catch_unwind(|| run_one(c));
        let r = match r {
            Ok(r) => r,
            Err(e) => Err(format!("panic@{}: {}", last_panic_loc(), panic_msg(e))),
        };
        match r {
            Ok((calls, outcome)) => {
                stats.transitions += calls as u64;
                let blocked = c.checks.iter().filter(|x| matches!(x.1, Res::BlockFlow | Res::BlockOther)).count();
                if c.checks.len() >= 2 && blocked >= 1 && blocked < c.checks.len() {
                    stats.nontrivial += 1;
                }
                stats.outcome(&format!("{}-p{}c{}s{}", outcome, c.preps.len(), c.checks.len(), c.stats.len()));
                if stats.samples.len() < 3 && c.checks.len() >= 3 && blocked >= 1 {
                    stats.sample(json!({"chain": c, "outcome": outcome, "slot_calls": calls}));
                }
            }
            Err(why) => {
                if stats.violations.len() < 25 {
                    stats.violations.push(Violation { sig: why.split(':').next().unwrap().into(), config: serde_json::to_value(c).unwrap(), trace: json!({}), why });
                }
            }
        }
    }
    None
}
