//! C10 — rule managers hold and enforce exactly the valid rules last given, incl. appends.
use super::{run_configs, Pass};
use crate::common::*;
use crate::explore::Subject;
use crate::sut::*;
use sentinel_core::base::{EntryStrongPtr, TrafficType};
use sentinel_core::{circuitbreaker as cb, flow, hotspot, isolation, system};
use serde::{Deserialize, Serialize};
use std::collections::BTreeMap;
use std::sync::Arc;

#[derive(Serialize, Deserialize, Clone, Copy, Debug, PartialEq)]
pub enum Fam {
    Flow,
    Cb,
    Hotspot,
    Iso,
    Sys,
}
#[derive(Serialize, Deserialize, Clone, Debug)]
pub struct Cfg {
    pub fam: Fam,
}

/// pool indices: 0 v1(r1) 1 v2(r1) 2 v3(r2) 3 inv1(r1, invalid) 4 inv3(r3, invalid, never-seen resource) 5 d1 (= v1, other id)
/// 6 w1 (r1): v1 with ONE secondary field changed (flow: statistic interval; breaker: minimum request
/// amount; hotspot: burst; isolation: threshold; system: adaptive strategy) - a different rule
const POOL: usize = 7;
const R: [&str; 3] = ["c10-r1", "c10-r2", "c10-r3"];
fn res_of(k: usize) -> usize {
    [0, 0, 1, 0, 2, 0, 0][k]
}
fn valid(k: usize) -> bool {
    k != 3 && k != 4
}
/// equality class (d1 equals v1)
fn class(k: usize) -> usize {
    if k == 5 {
        0
    } else {
        k
    }
}
/// threshold enforced by pool rule k (flow tokens per window / isolation concurrency)
fn iso_limit(k: usize) -> u32 {
    if k == 6 {
        5
    } else {
        limit(k)
    }
}
fn limit(k: usize) -> u32 {
    [2, 4, 3, 0, 0, 2, 2][k]
}

#[derive(Clone, Debug)]
pub enum Op {
    LoadAll(Vec<usize>),
    LoadRes(usize, Vec<usize>),
    LoadEmptyName,
    Append(usize),
    ClearAll,
    ClearRes(usize),
}

macro_rules! fam_dispatch {
    ($fam:expr, $m:ident, $body:expr) => {
        match $fam {
            Fam::Flow => {
                use flow as $m;
                $body
            }
            Fam::Cb => {
                use cb as $m;
                $body
            }
            Fam::Hotspot => {
                use hotspot as $m;
                $body
            }
            Fam::Iso => {
                use isolation as $m;
                $body
            }
            Fam::Sys => unreachable!(),
        }
    };
}

fn flow_rule(k: usize) -> Arc<flow::Rule> {
    Arc::new(flow::Rule { id: format!("p{}", k), resource: R[res_of(k)].into(), threshold: if valid(k) { limit(k) as f64 } else { -1.0 }, stat_interval_ms: if k == 6 { 2000 } else { 1000 }, ..Default::default() })
}
fn cb_rule(k: usize) -> Arc<cb::Rule> {
    Arc::new(cb::Rule { id: format!("p{}", k), resource: R[res_of(k)].into(), strategy: cb::BreakerStrategy::ErrorCount, retry_timeout_ms: if valid(k) { 1000 } else { 0 }, min_request_amount: if k == 6 { 2 } else { 1 }, stat_interval_ms: 1000, threshold: 10.0 + limit(k) as f64, ..Default::default() })
}
fn hs_rule(k: usize) -> Arc<hotspot::Rule> {
    Arc::new(hotspot::Rule { id: format!("p{}", k), resource: R[res_of(k)].into(), metric_type: hotspot::MetricType::QPS, threshold: 10 + limit(k) as u64, burst_count: if k == 6 { 3 } else { 0 }, duration_in_sec: if valid(k) { 1 } else { 0 }, ..Default::default() })
}
fn iso_rule(k: usize) -> Arc<isolation::Rule> {
    Arc::new(isolation::Rule { id: format!("p{}", k), resource: R[res_of(k)].into(), threshold: if k == 6 { 5 } else if valid(k) { limit(k) } else { 0 }, ..Default::default() })
}
fn sys_rule(k: usize) -> Arc<system::Rule> {
    let (mt, thr) = [(system::MetricType::InboundQPS, 1000.0), (system::MetricType::Concurrency, 1000.0), (system::MetricType::AvgRT, 1e6), (system::MetricType::Load, 2.0), (system::MetricType::CpuUsage, 200.0), (system::MetricType::InboundQPS, 1000.0), (system::MetricType::InboundQPS, 1000.0)][k];
    Arc::new(system::Rule { id: format!("p{}", k), metric_type: mt, threshold: thr, strategy: if k == 6 { system::AdaptiveStrategy::BBR } else { system::AdaptiveStrategy::NoAdaptive } })
}

/// pool index of a reported rule, from its id
fn idx(id: &str) -> usize {
    id[1..].parse().unwrap()
}

pub struct C10 {
    fam: Fam,
    /// reference: resource index -> pool indices of the valid rules held (in arrival order)
    store: BTreeMap<usize, Vec<usize>>,
    last_load: Option<String>,
    appended_kept: u64,
    probes: u64,
    /// both ids of the duplicate pair (v1, d1) have been given at some point of this history:
    /// the rule may be held once or twice and return values are not asserted any more
    seen: [bool; 2],
}

impl C10 {
    pub fn new(c: &Cfg) -> Self {
        C10 { fam: c.fam, store: BTreeMap::new(), last_load: None, appended_kept: 0, probes: 0, seen: [false; 2] }
    }
    fn reported_all(&self) -> Vec<usize> {
        match self.fam {
            Fam::Sys => system::get_rules().iter().map(|r| idx(&r.id)).collect(),
            f => fam_dispatch!(f, m, m::get_rules().iter().map(|r| idx(&r.id)).collect()),
        }
    }
    fn reported_res(&self, r: usize) -> Vec<usize> {
        let name = R[r].to_string();
        match self.fam {
            Fam::Sys => vec![],
            f => fam_dispatch!(f, m, m::get_rules_of_resource(&name).iter().map(|r| idx(&r.id)).collect()),
        }
    }
    /// rules that are actually wired into the checking path
    fn enforced_res(&self, r: usize) -> Option<Vec<usize>> {
        let name = R[r].to_string();
        match self.fam {
            Fam::Flow => Some(flow::get_traffic_controller_list_for(&name).iter().map(|c| idx(&c.rule().id)).collect()),
            Fam::Hotspot => Some(hotspot::get_traffic_controller_list_for(&name).iter().map(|c| idx(&c.rule().id)).collect()),
            Fam::Cb => Some(cb::get_breakers_of_resource(&name).iter().map(|b| idx(&b.bound_rule().id)).collect()),
            _ => None,
        }
    }
    /// compare a reported list with the reference as sets under rule equality (a rule given twice
    /// under two ids may be kept once or twice)
    fn same(&self, what: &str, got: &[usize], want: &[usize]) -> Result<(), String> {
        let gc: std::collections::BTreeSet<usize> = got.iter().map(|k| class(*k)).collect();
        let wc: std::collections::BTreeSet<usize> = want.iter().map(|k| class(*k)).collect();
        let tainted = self.seen[0] && self.seen[1];
        let extra = if tainted && wc.contains(&0) { 1 } else { 0 };
        if gc != wc || got.len() > wc.len() + extra.max(want.len() - wc.len()) || got.len() < wc.len() {
            return Err(format!("{}: holds pool rules {:?}, the valid rules last given are {:?}", what, got, want));
        }
        Ok(())
    }
    fn compare(&mut self, after: &str) -> Result<(), String> {
        let want_all: Vec<usize> = self.store.values().flatten().copied().collect();
        self.same(&format!("get_rules after {}", after), &self.reported_all(), &want_all)?;
        if self.fam == Fam::Sys {
            return Ok(());
        }
        for r in 0..3 {
            let want: Vec<usize> = self.store.get(&r).cloned().unwrap_or_default();
            self.same(&format!("get_rules_of_resource({}) after {}", R[r], after), &self.reported_res(r), &want)?;
            if let Some(e) = self.enforced_res(r) {
                self.same(&format!("enforced-on({}) after {}", R[r], after), &e, &want)?;
            }
        }
        // enforcement by admission decisions
        if self.fam == Fam::Flow || self.fam == Fam::Iso {
            for r in 0..3 {
                let want: Vec<usize> = self.store.get(&r).cloned().unwrap_or_default();
                let cap = want.iter().map(|k| if self.fam == Fam::Iso { iso_limit(*k) } else { limit(*k) }).min();
                // a fresh statistic window
                advance_ms(20_000);
                let mut held: Vec<EntryStrongPtr> = vec![];
                let mut admitted = 0;
                for _ in 0..6 {
                    match build(R[r], TrafficType::Outbound, 1) {
                        Built::Ok(e) => {
                            admitted += 1;
                            held.push(e);
                        }
                        Built::Blocked(..) => break,
                    }
                }
                for e in held {
                    e.exit();
                }
                self.probes += 1;
                let expect = cap.unwrap_or(6).min(6);
                if admitted != expect {
                    return Err(format!("enforcement({}) after {}: {} probe entries admitted, the active rules {:?} allow {}", R[r], after, admitted, want, expect));
                }
            }
        }
        Ok(())
    }
}

impl Subject for C10 {
    type Op = Op;
    fn reset(&mut self) {
        reset_world(T0_MS);
        self.store.clear();
        self.last_load = None;
        self.appended_kept = 0;
        self.probes = 0;
        self.seen = [false; 2];
    }
    fn enabled(&self) -> Vec<Op> {
        let mut v = vec![];
        // ([3, 1, 2]: an invalid rule standing BEFORE valid ones in the list given)
        for s in [vec![0], vec![], vec![0, 1], vec![1, 2], vec![0, 3], vec![3, 4], vec![0, 5], vec![0, 1, 2], vec![6], vec![3, 1, 2]] {
            v.push(Op::LoadAll(s));
        }
        for k in [1, 0, 2, 3, 4, 5, 6] {
            v.push(Op::Append(k));
        }
        v.push(Op::ClearAll);
        if self.fam != Fam::Sys {
            for s in [vec![], vec![0], vec![1], vec![0, 1], vec![3], vec![0, 5], vec![6]] {
                v.push(Op::LoadRes(0, s));
            }
            v.push(Op::LoadRes(1, vec![2]));
            v.push(Op::LoadRes(2, vec![4]));
            v.push(Op::LoadEmptyName);
            v.push(Op::ClearRes(0));
            v.push(Op::ClearRes(1));
        }
        v
    }
    fn step(&mut self, op: &Op) -> Result<(), String> {
        let label = format!("{:?}", op);
        match op {
            Op::LoadAll(s) | Op::LoadRes(_, s) => {
                self.seen[0] |= s.contains(&0);
                self.seen[1] |= s.contains(&5);
            }
            Op::Append(k) => {
                self.seen[0] |= *k == 0;
                self.seen[1] |= *k == 5;
            }
            _ => {}
        }
        let tainted = self.seen[0] && self.seen[1];
        let has_dup = |_s: &Vec<usize>| tainted;
        match op {
            Op::LoadAll(s) => {
                let ret: Option<bool> = match self.fam {
                    Fam::Flow => Some(flow::load_rules(s.iter().map(|k| flow_rule(*k)).collect())),
                    Fam::Cb => Some(cb::load_rules(s.iter().map(|k| cb_rule(*k)).collect())),
                    Fam::Hotspot => Some(hotspot::load_rules(s.iter().map(|k| hs_rule(*k)).collect())),
                    Fam::Iso => {
                        isolation::load_rules(s.iter().map(|k| iso_rule(*k)).collect());
                        None
                    }
                    Fam::Sys => {
                        system::load_rules(s.iter().map(|k| sys_rule(*k)).collect());
                        None
                    }
                };
                self.store.clear();
                for k in s {
                    if valid(*k) {
                        let r = if self.fam == Fam::Sys { 0 } else { res_of(*k) };
                        self.store.entry(r).or_default().push(*k);
                    }
                }
                if let Some(ret) = ret {
                    if self.last_load.as_deref() == Some(label.as_str()) && !has_dup(s) && ret {
                        return Err(format!("unchanged-not-reported: {} twice in a row, the second call returned true", label));
                    }
                }
                self.last_load = Some(label.clone());
            }
            Op::LoadRes(r, s) => {
                let name = R[*r].to_string();
                let ret: Result<bool, String> = match self.fam {
                    Fam::Flow => flow::load_rules_of_resource(&name, s.iter().map(|k| flow_rule(*k)).collect()).map_err(|e| e.to_string()),
                    Fam::Cb => cb::load_rules_of_resource(&name, s.iter().map(|k| cb_rule(*k)).collect()).map_err(|e| e.to_string()),
                    Fam::Hotspot => hotspot::load_rules_of_resource(&name, s.iter().map(|k| hs_rule(*k)).collect()).map_err(|e| e.to_string()),
                    Fam::Iso => isolation::load_rules_of_resource(&name, s.iter().map(|k| iso_rule(*k)).collect()).map_err(|e| e.to_string()),
                    Fam::Sys => unreachable!(),
                };
                let ret = ret.map_err(|e| format!("load-for-resource-failed: {} returned Err({})", label, e))?;
                let v: Vec<usize> = s.iter().copied().filter(|k| valid(*k)).collect();
                if v.is_empty() {
                    self.store.remove(r);
                } else {
                    self.store.insert(*r, v);
                }
                if self.last_load.as_deref() == Some(label.as_str()) && !has_dup(s) && !s.is_empty() && ret {
                    return Err(format!("unchanged-not-reported: {} twice in a row, the second call returned Ok(true)", label));
                }
                self.last_load = Some(label.clone());
            }
            Op::LoadEmptyName => {
                let e = String::new();
                let ok = match self.fam {
                    Fam::Flow => flow::load_rules_of_resource(&e, vec![flow_rule(0)]).is_ok(),
                    Fam::Cb => cb::load_rules_of_resource(&e, vec![cb_rule(0)]).is_ok(),
                    Fam::Hotspot => hotspot::load_rules_of_resource(&e, vec![hs_rule(0)]).is_ok(),
                    Fam::Iso => isolation::load_rules_of_resource(&e, vec![iso_rule(0)]).is_ok(),
                    Fam::Sys => unreachable!(),
                };
                if ok {
                    return Err("empty-name-accepted: load_rules_of_resource(\"\") returned Ok".into());
                }
            }
            Op::Append(k) => {
                let ret = match self.fam {
                    Fam::Flow => flow::append_rule(flow_rule(*k)),
                    Fam::Cb => cb::append_rule(cb_rule(*k)),
                    Fam::Hotspot => hotspot::append_rule(hs_rule(*k)),
                    Fam::Iso => isolation::append_rule(iso_rule(*k)),
                    Fam::Sys => system::append_rule(sys_rule(*k)),
                };
                let r = if self.fam == Fam::Sys { 0 } else { res_of(*k) };
                let present = self.store.get(&r).map(|v| v.iter().any(|x| class(*x) == class(*k))).unwrap_or(false);
                if valid(*k) {
                    if present {
                        // equal rule already active: keeping it once or twice are both accepted;
                        // (the managers index by id+resource hash, equality ignores the id)
                        if !tainted && self.store[&r].contains(k) && ret {
                            return Err(format!("append-duplicate: {} of a rule that is already present returned true", label));
                        }
                        if !self.store[&r].contains(k) && ret {
                            self.store.get_mut(&r).unwrap().push(*k);
                        }
                    } else {
                        if !ret && !tainted {
                            return Err(format!("append-refused: {} of a new valid rule returned false", label));
                        }
                        if self.store.get(&r).map(|v| !v.is_empty()).unwrap_or(false) {
                            self.appended_kept += 1;
                        }
                        self.store.entry(r).or_default().push(*k);
                    }
                    self.last_load = None;
                }
                // (an invalid rule is ignored: a re-load of the set loaded before it is still "the same set")
            }
            Op::ClearAll => {
                match self.fam {
                    Fam::Sys => system::clear_rules(),
                    f => fam_dispatch!(f, m, m::clear_rules()),
                }
                self.store.clear();
                self.last_load = None;
            }
            Op::ClearRes(r) => {
                let name = R[*r].to_string();
                fam_dispatch!(self.fam, m, m::clear_rules_of_resource(&name));
                self.store.remove(r);
                self.last_load = None;
            }
        }
        self.compare(&label)
    }
    fn nontrivial(&self) -> bool {
        self.appended_kept >= 1
    }
    fn outcome(&self) -> String {
        format!("{:?}", self.store.values().map(|v| v.len()).collect::<Vec<_>>())
    }
    fn counters(&self) -> Vec<(&'static str, u64)> {
        vec![("appends_onto_a_resource_that_already_had_rules", self.appended_kept), ("enforcement_probes", self.probes)]
    }
}

pub fn run(o: &Opts, stats: &mut Stats) -> Option<usize> {
    let cfgs: Vec<Cfg> = [Fam::Flow, Fam::Cb, Fam::Hotspot, Fam::Iso, Fam::Sys].iter().map(|f| Cfg { fam: *f }).collect();
    // one family per configuration; shard the families' first operation instead (25 ops)
    let thorough = o.thorough;
    let mut expanded = vec![];
    for c in &cfgs {
        for first in 0..29usize {
            expanded.push(Sharded { fam: c.fam, first });
        }
    }
    // second part (c10f.rs): field sensitivity; its configurations are numbered after the first part's
    if let Some(path) = &o.replay {
        let v: serde_json::Value = serde_json::from_str(&std::fs::read_to_string(path).expect("replay file")).expect("json");
        if v["config"].get("pair").is_some() {
            return super::c10f::run(o, stats);
        }
        if v["config"].get("boundary").is_some() {
            return super::c10v::run(o, stats);
        }
    }
    let n_main = expanded.len();
    if o.replay.is_some() || o.start_cfg < n_main {
        let r = run_configs(o, stats, &expanded, |c, _| First { inner: C10::new(&Cfg { fam: c.fam }), first: c.first, step_no: 0 }, &move |_c: &Sharded| if thorough { vec![Pass { depth: 5, max_dev: 5 }] } else { vec![Pass { depth: 3, max_dev: 3 }] });
        if r.is_some() || o.replay.is_some() {
            return r;
        }
    }
    let o2 = Opts { start_cfg: o.start_cfg.saturating_sub(n_main), ..o.clone() };
    if let Some(r) = super::c10f::run(&o2, stats) {
        return Some(r + n_main);
    }
    // third part (c10v.rs): the boundaries of the validity ranges
    super::c10v::run(o, stats);
    None
}

/// Work unit = (family, index of the first operation): lets 16 shards share 5 families.
#[derive(Serialize, Deserialize, Clone, Debug)]
pub struct Sharded {
    pub fam: Fam,
    pub first: usize,
}
pub struct First {
    inner: C10,
    first: usize,
    step_no: usize,
}
impl Subject for First {
    type Op = Op;
    fn reset(&mut self) {
        self.inner.reset();
        self.step_no = 0;
    }
    fn enabled(&self) -> Vec<Op> {
        let all = self.inner.enabled();
        if self.step_no == 0 {
            if self.first < all.len() {
                vec![all[self.first].clone()]
            } else {
                vec![]
            }
        } else {
            all
        }
    }
    fn step(&mut self, op: &Op) -> Result<(), String> {
        self.step_no += 1;
        self.inner.step(op)
    }
    fn nontrivial(&self) -> bool {
        self.inner.nontrivial()
    }
    fn outcome(&self) -> String {
        self.inner.outcome()
    }
    fn counters(&self) -> Vec<(&'static str, u64)> {
        self.inner.counters()
    }
    fn sig(&self, why: &str) -> String {
        format!("{:?}:{}", self.inner.fam, why.split(':').next().unwrap_or("").split('(').next().unwrap_or("").split(' ').next().unwrap_or(""))
    }
}
