//! C20 — Tower middleware calls the service iff admitted and always releases admission.
use super::{run_configs, Pass};
use crate::common::*;
use crate::explore::Subject;
use crate::sut::*;
use sentinel_core::base::ConcurrencyStat;
use sentinel_core::{isolation, stat};
use sentinel_tower::{BoxError, SentinelLayer, SentinelService, ServiceRole};
use tower::Layer;
use serde::{Deserialize, Serialize};
use std::future::Future;
use std::pin::Pin;
use std::sync::atomic::{AtomicUsize, Ordering};
use std::sync::Arc;
use std::task::{Context, Poll, Waker};
use tower::Service;

#[derive(Serialize, Deserialize, Clone, Copy, Debug, PartialEq)]
pub enum Outcome {
    ReadyOk,
    ReadyErr,
    PendingThenOk,
    PendingThenErr,
}
#[derive(Serialize, Deserialize, Clone, Copy, Debug, PartialEq)]
pub enum Fallback {
    None,
    OkResponse,
    Err,
}
#[derive(Serialize, Deserialize, Clone, Debug)]
pub struct Cfg {
    pub threshold: u32,
    pub fallback: Fallback,
    pub server: bool,
    /// how the service is built: directly, through a SentinelLayer, or through a CLONE of the
    /// layer (what tower::ServiceBuilder and shared stacks do)
    #[serde(default)]
    pub via: Via,
    /// a flow rule with the Throttling strategy (2 per second, queueing up to 10 s) is loaded on
    /// the same resource: requests are delayed, never rejected by it; admission and release are
    /// what they are without it
    #[serde(default)]
    pub throttled: bool,
    /// the inner service answers Pending to the first poll_ready of every readiness cycle
    #[serde(default)]
    pub slow_inner: bool,
}
#[derive(Serialize, Deserialize, Clone, Copy, Debug, PartialEq, Default)]
pub enum Via {
    #[default]
    Direct,
    Layer,
    ClonedLayer,
}

pub type Req = (u32, Outcome);
pub const RES: &str = "c20-res";

/// Mock inner service. Like tower's own services, readiness belongs to the INSTANCE that was
/// polled: a clone starts un-ready, and `call` on an instance that was not driven to readiness is a
/// breach of the Service contract (recorded, reported by the harness).
pub struct Inner {
    pub calls: Arc<AtomicUsize>,
    pub called_ids: Arc<std::sync::Mutex<Vec<u32>>>,
    pub breaches: Arc<AtomicUsize>,
    ready: bool,
    /// a service with back-pressure: after every call (and at first) poll_ready answers Pending
    /// once before it answers Ready
    slow: bool,
    polled_once: bool,
}
impl Inner {
    pub fn new(calls: Arc<AtomicUsize>) -> Self {
        Inner { calls, called_ids: Arc::new(std::sync::Mutex::new(vec![])), breaches: Arc::new(AtomicUsize::new(0)), ready: false, slow: false, polled_once: false }
    }
    pub fn new_slow(calls: Arc<AtomicUsize>) -> Self {
        Inner { slow: true, ..Inner::new(calls) }
    }
}
impl Clone for Inner {
    fn clone(&self) -> Self {
        Inner { calls: self.calls.clone(), called_ids: self.called_ids.clone(), breaches: self.breaches.clone(), ready: false, slow: self.slow, polled_once: false }
    }
}
struct Mock {
    id: u32,
    o: Outcome,
    polled: bool,
}
impl Future for Mock {
    type Output = Result<u32, String>;
    fn poll(mut self: Pin<&mut Self>, _cx: &mut Context<'_>) -> Poll<Self::Output> {
        let pending = matches!(self.o, Outcome::PendingThenOk | Outcome::PendingThenErr);
        if pending && !self.polled {
            self.polled = true;
            return Poll::Pending;
        }
        match self.o {
            Outcome::ReadyOk | Outcome::PendingThenOk => Poll::Ready(Ok(self.id)),
            _ => Poll::Ready(Err(format!("inner-error-{}", self.id))),
        }
    }
}
impl Service<Req> for Inner {
    type Response = u32;
    type Error = String;
    type Future = Pin<Box<dyn Future<Output = Result<u32, String>> + Send>>;
    fn poll_ready(&mut self, _: &mut Context<'_>) -> Poll<Result<(), String>> {
        if self.slow && !self.polled_once {
            self.polled_once = true;
            return Poll::Pending;
        }
        self.ready = true;
        Poll::Ready(Ok(()))
    }
    fn call(&mut self, r: Req) -> Self::Future {
        if !self.ready {
            self.breaches.fetch_add(1, Ordering::SeqCst);
        }
        self.ready = false;
        self.polled_once = false;
        self.called_ids.lock().unwrap_or_else(|e| e.into_inner()).push(r.0);
        self.calls.fetch_add(1, Ordering::SeqCst);
        Box::pin(Mock { id: r.0, o: r.1, polled: false })
    }
}
pub fn extract(_r: &Req) -> String {
    RES.to_string()
}
pub fn fb_ok(_r: &Req, _e: sentinel_core::Error) -> Result<u32, BoxError> {
    Ok(9999)
}
fn fb_err(_r: &Req, _e: sentinel_core::Error) -> Result<u32, BoxError> {
    Err("fallback-error".into())
}

#[derive(Clone, Debug)]
pub enum Op {
    Call(Outcome),
    Poll(usize),
    Drop(usize),
    /// time passes while requests are in flight (longer than the statistic window): nothing in the
    /// statement depends on how long the inner call takes
    Advance(u64),
}

type Fut = Pin<Box<dyn Future<Output = Result<u32, BoxError>> + Send>>;
struct Live {
    fut: Fut,
    id: u32,
    o: Outcome,
    admitted: bool,
    polls: u32,
}

pub struct C20 {
    cfg: Cfg,
    svc: Option<SentinelService<Inner, Req>>,
    calls: Arc<AtomicUsize>,
    called_ids: Arc<std::sync::Mutex<Vec<u32>>>,
    breaches: Arc<AtomicUsize>,
    live: Vec<Live>,
    inflight: u32,
    next_id: u32,
    tainted: bool,
    admitted_n: u32,
    rejected_n: u32,
    resolved_err: u32,
    dropped_unresolved: u64,
}

impl C20 {
    pub fn new(cfg: &Cfg) -> Self {
        C20 { cfg: cfg.clone(), svc: None, calls: Arc::new(AtomicUsize::new(0)), called_ids: Arc::new(std::sync::Mutex::new(vec![])), breaches: Arc::new(AtomicUsize::new(0)), live: vec![], inflight: 0, next_id: 0, tainted: false, admitted_n: 0, rejected_n: 0, resolved_err: 0, dropped_unresolved: 0 }
    }
    fn calls_of(&self, id: u32) -> usize {
        self.called_ids.lock().unwrap_or_else(|e| e.into_inner()).iter().filter(|x| **x == id).count()
    }
    fn check_counts(&self, after: &str) -> Result<(), String> {
        if self.tainted {
            return Ok(());
        }
        let node = stat::get_resource_node(&RES.to_string());
        let conc = node.map(|n| n.current_concurrency()).unwrap_or(0);
        if conc != self.inflight {
            return Err(format!("in-flight: after {} the resource reports {} in flight, {} admitted requests are unfinished", after, conc, self.inflight));
        }
        let ib = stat::inbound_node().current_concurrency();
        let want = if self.cfg.server { self.inflight } else { 0 };
        if ib != want {
            return Err(format!("role-accounting: after {} the global inbound node reports {} in flight, expected {} for a {} role", after, ib, want, if self.cfg.server { "server" } else { "client" }));
        }
        Ok(())
    }
}

impl Subject for C20 {
    type Op = Op;
    fn reset(&mut self) {
        self.live.clear();
        reset_world(T0_MS);
        // entries leaked by a previous sequence live on the old node, which reset_world dropped
        isolation::load_rules(vec![Arc::new(isolation::Rule { id: "iso".into(), resource: RES.into(), threshold: self.cfg.threshold, ..Default::default() })]);
        if self.cfg.throttled {
            sentinel_core::flow::load_rules(vec![Arc::new(sentinel_core::flow::Rule { id: "thr".into(), resource: RES.into(), threshold: 2.0, stat_interval_ms: 1000, control_strategy: sentinel_core::flow::ControlStrategy::Throttling, max_queueing_time_ms: 10_000, ..Default::default() })]);
        }
        self.calls = Arc::new(AtomicUsize::new(0));
        let role = if self.cfg.server { ServiceRole::Server } else { ServiceRole::Client };
        let inner = if self.cfg.slow_inner { Inner::new_slow(self.calls.clone()) } else { Inner::new(self.calls.clone()) };
        self.called_ids = inner.called_ids.clone();
        self.breaches = inner.breaches.clone();
        let s = match self.cfg.via {
            Via::Direct => {
                let mut s = SentinelService::new(inner, role).with_extractor(extract);
                match self.cfg.fallback {
                    Fallback::None => {}
                    Fallback::OkResponse => s = s.with_fallback(fb_ok),
                    Fallback::Err => s = s.with_fallback(fb_err),
                }
                s
            }
            via => {
                let mut l: SentinelLayer<Inner, Req, ()> = SentinelLayer::new(role).with_extractor(extract);
                match self.cfg.fallback {
                    Fallback::None => {}
                    Fallback::OkResponse => l = l.with_fallback(fb_ok),
                    Fallback::Err => l = l.with_fallback(fb_err),
                }
                if via == Via::ClonedLayer {
                    l.clone().layer(inner)
                } else {
                    l.layer(inner)
                }
            }
        };
        self.svc = Some(s);
        self.inflight = 0;
        self.next_id = 0;
        self.tainted = false;
        self.admitted_n = 0;
        self.rejected_n = 0;
        self.resolved_err = 0;
        self.dropped_unresolved = 0;
    }
    fn enabled(&self) -> Vec<Op> {
        let mut v = vec![];
        if self.live.len() < 3 {
            for o in [Outcome::ReadyOk, Outcome::ReadyErr, Outcome::PendingThenOk, Outcome::PendingThenErr] {
                v.push(Op::Call(o));
            }
        }
        for j in 0..self.live.len() {
            v.push(Op::Poll(j));
        }
        for j in 0..self.live.len() {
            v.push(Op::Drop(j));
        }
        if !self.live.is_empty() {
            v.push(Op::Advance(11_000));
        }
        v
    }
    fn step(&mut self, op: &Op) -> Result<(), String> {
        match op {
            Op::Call(o) => {
                self.next_id += 1;
                let id = self.next_id;
                let expect_admit = self.inflight + 1 <= self.cfg.threshold;
                let conc = |this: &Self| stat::get_resource_node(&RES.to_string()).map(|n| n.current_concurrency()).unwrap_or(0);
                let before = conc(self);
                // the Service contract: drive the service to readiness, then call
                {
                    let waker = Waker::noop();
                    let mut cx = Context::from_waker(waker);
                    let mut polls = 0;
                    loop {
                        polls += 1;
                        match self.svc.as_mut().unwrap().poll_ready(&mut cx) {
                            Poll::Ready(Ok(())) => break,
                            Poll::Pending if self.cfg.slow_inner && polls < 3 => continue,
                            other => return Err(format!("not-ready: poll_ready #{} of the middleware answered {:?} over an inner service that is {}", polls, other.map(|r| r.map_err(|e| e.to_string())), if self.cfg.slow_inner { "ready from its second poll on" } else { "always ready" })),
                        }
                    }
                }
                let fut = self.svc.as_mut().unwrap().call((id, *o));
                // admitted = an entry was taken for this request (the in-flight count went up by one)
                let admitted = conc(self) == before + 1;
                let called = self.calls_of(id);
                if !self.tainted {
                    if expect_admit != admitted {
                        return Err(format!("admission-mismatch: request {} with {} in flight and threshold {} was {}", id, self.inflight, self.cfg.threshold, if admitted { "admitted" } else { "rejected" }));
                    }
                    if !admitted && called != 0 {
                        return Err(format!("inner-called-for-rejected: request {} exceeds the threshold ({} in flight) but the inner service was called", id, self.inflight));
                    }
                    if called > 1 {
                        return Err(format!("inner-called-twice: request {}: {} inner calls", id, called));
                    }
                }
                if admitted {
                    self.inflight += 1;
                    self.admitted_n += 1;
                } else {
                    self.rejected_n += 1;
                }
                self.live.push(Live { fut, id, o: *o, admitted, polls: 0 });
                self.check_counts("call")
            }
            Op::Poll(j) => {
                let waker = Waker::noop();
                let mut cx = Context::from_waker(waker);
                let l = &mut self.live[*j];
                l.polls += 1;
                let r = l.fut.as_mut().poll(&mut cx);
                let (lid, ladm) = (l.id, l.admitted);
                if !self.tainted {
                    // by the first poll the inner service has been called exactly once for an admitted
                    // request (at call time or lazily), never for a rejected one, and only on an
                    // instance that had been driven to readiness
                    let n = self.calls_of(lid);
                    if ladm && n != 1 {
                        return Err(format!("inner-not-called: admitted request {} has been polled but the inner service was called {} times", lid, n));
                    }
                    if !ladm && n != 0 {
                        return Err(format!("inner-called-for-rejected: rejected request {} reached the inner service", lid));
                    }
                    if self.breaches.load(Ordering::SeqCst) != 0 {
                        return Err(format!("inner-called-unready: request {}: the inner service instance that was called had not been driven to readiness by poll_ready (a clone of the ready one?)", lid));
                    }
                }
                let l = &mut self.live[*j];
                match r {
                    Poll::Pending => {
                        let should_pend = l.admitted && l.polls == 1 && matches!(l.o, Outcome::PendingThenOk | Outcome::PendingThenErr);
                        if !should_pend {
                            return Err(format!("unexpected-pending: request {} (admitted {}, outcome {:?}) is pending on poll {}", l.id, l.admitted, l.o, l.polls));
                        }
                        self.check_counts("a pending poll")
                    }
                    Poll::Ready(out) => {
                        let l = self.live.remove(*j);
                        if l.admitted {
                            let want_ok = matches!(l.o, Outcome::ReadyOk | Outcome::PendingThenOk);
                            match (&out, want_ok) {
                                (Ok(v), true) if *v == l.id => {}
                                (Err(e), false) if e.to_string().contains(&format!("inner-error-{}", l.id)) => {
                                    self.resolved_err += 1;
                                }
                                _ => return Err(format!("wrong-output: admitted request {} with inner outcome {:?} resolved to {:?}", l.id, l.o, out.as_ref().map_err(|e| e.to_string()))),
                            }
                            // the admission is released when the inner call finishes, Ok or Err
                            self.inflight -= 1;
                            self.check_counts(&format!("request {} finished with {}", l.id, if want_ok { "a response" } else { "an error" }))
                        } else {
                            match (self.cfg.fallback, &out) {
                                (Fallback::None, Err(_)) => {}
                                (Fallback::OkResponse, Ok(9999)) => {}
                                (Fallback::Err, Err(e)) if e.to_string().contains("fallback-error") => {}
                                _ => return Err(format!("wrong-rejection-output: rejected request {} with fallback {:?} resolved to {:?}", l.id, self.cfg.fallback, out.as_ref().map_err(|e| e.to_string()))),
                            }
                            self.check_counts("a rejected request resolved")
                        }
                    }
                }
            }
            Op::Advance(d) => {
                advance_ms(*d);
                self.check_counts("time passing")
            }
            Op::Drop(j) => {
                let l = self.live.remove(*j);
                if l.admitted {
                    // dropping an unresolved admitted future: explored and tabulated, never a verdict
                    self.tainted = true;
                    self.dropped_unresolved += 1;
                }
                drop(l);
                self.check_counts("drop of a rejected request's future")
            }
        }
    }
    fn finish(&mut self) -> Result<(), String> {
        // resolve everything that is left: afterwards nothing may remain in flight
        while !self.live.is_empty() {
            self.step(&Op::Poll(0))?;
        }
        if !self.tainted && self.inflight != 0 {
            return Err("MACHINERY: model in-flight not zero".into());
        }
        self.check_counts("all requests finished")
    }
    fn nontrivial(&self) -> bool {
        !self.tainted && self.admitted_n >= 1 && self.rejected_n >= 1 && self.resolved_err >= 1
    }
    fn outcome(&self) -> String {
        format!("a{}r{}e{}{}", self.admitted_n.min(4), self.rejected_n.min(4), self.resolved_err.min(3), if self.tainted { "-dropped_future" } else { "" })
    }
    fn counters(&self) -> Vec<(&'static str, u64)> {
        vec![("dropped_future_sequences_not_asserted", self.tainted as u64), ("admitted_requests_resolved_with_inner_error", self.resolved_err as u64)]
    }
}

pub fn run(o: &Opts, stats: &mut Stats) -> Option<usize> {
    let mut cfgs = vec![];
    for threshold in [1u32, 2] {
        for fallback in [Fallback::None, Fallback::OkResponse, Fallback::Err] {
            for server in [true, false] {
                for via in [Via::Direct, Via::Layer, Via::ClonedLayer] {
                    cfgs.push(Cfg { threshold, fallback, server, via, throttled: false, slow_inner: false });
                }
            }
        }
    }
    for threshold in [1u32, 2] {
        for server in [true, false] {
            cfgs.push(Cfg { threshold, fallback: Fallback::OkResponse, server, via: Via::Direct, throttled: true, slow_inner: false });
            cfgs.push(Cfg { threshold, fallback: Fallback::None, server, via: if server { Via::Direct } else { Via::ClonedLayer }, throttled: false, slow_inner: true });
        }
    }
    let thorough = o.thorough;
    run_configs(o, stats, &cfgs, |c, _| C20::new(c), &move |_c: &Cfg| if thorough { vec![Pass { depth: 7, max_dev: 7 }] } else { vec![Pass { depth: 5, max_dev: 5 }] })
}
