//! C10 (third part) — which rules are valid: the boundaries of every family's validity ranges.
//!
//! "Invalid rules are ignored without affecting the valid ones": a table of rules sitting exactly
//! on, just inside and just outside each documented range (the ranges are those named by the
//! managers' own error messages: thresholds >= 0, ratio thresholds in [0, 1], CPU usage in
//! [0, 100], load in [0, 1], isolation threshold >= 1, non-zero statistic interval / retry
//! timeout / QPS duration / warm-up period, cold factor != 1, index > 0 and key exclusive, ...).
//! Each rule is given through every entry point (load-all alone, load-all between two valid
//! companions, load-for-resource, append) and the rules held afterwards must be exactly the
//! companions plus the rule if and only if it is valid.
use crate::common::*;
use crate::sut::*;
use sentinel_core::{circuitbreaker as cb, flow, hotspot, isolation, system};
use serde_json::json;
use std::sync::Arc;

const R: &str = "c10v-res";
const R2: &str = "c10v-other";

#[derive(Clone)]
enum AnyRule {
    Flow(flow::Rule),
    Cb(cb::Rule),
    Hs(hotspot::Rule),
    Iso(isolation::Rule),
    Sys(system::Rule),
}

fn cases() -> Vec<(String, AnyRule, bool)> {
    let mut v: Vec<(String, AnyRule, bool)> = vec![];
    let f = |t: f64| flow::Rule { id: "x".into(), resource: R.into(), threshold: t, ..Default::default() };
    for (n, t, ok) in [("threshold 0", 0.0, true), ("threshold -0.0", -0.0, true), ("threshold -1e-9", -1e-9, false), ("threshold 1e-9", 1e-9, true), ("threshold 1e15", 1e15, true)] {
        v.push((format!("flow {}", n), AnyRule::Flow(f(t)), ok));
    }
    for (p, c, ok) in [(0u32, 3u32, false), (1, 3, true), (1, 1, false), (1, 0, true), (1, 2, true), (u32::MAX, 2, true)] {
        v.push((format!("flow warm-up period {} cold factor {}", p, c), AnyRule::Flow(flow::Rule { calculate_strategy: flow::CalculateStrategy::WarmUp, warm_up_period_sec: p, warm_up_cold_factor: c, ..f(10.0) }), ok));
    }
    v.push(("flow associated without ref_resource".into(), AnyRule::Flow(flow::Rule { relation_strategy: flow::RelationStrategy::Associated, ..f(10.0) }), false));
    v.push(("flow associated with ref_resource".into(), AnyRule::Flow(flow::Rule { relation_strategy: flow::RelationStrategy::Associated, ref_resource: R2.into(), ..f(10.0) }), true));
    v.push(("flow stat_interval 11 min".into(), AnyRule::Flow(flow::Rule { stat_interval_ms: 11 * 60 * 1000, ..f(10.0) }), true));
    v.push(("flow empty resource".into(), AnyRule::Flow(flow::Rule { resource: "".into(), ..f(10.0) }), false));

    let c = |s: cb::BreakerStrategy, t: f64| cb::Rule { id: "x".into(), resource: R.into(), strategy: s, retry_timeout_ms: 1000, min_request_amount: 1, stat_interval_ms: 1000, threshold: t, ..Default::default() };
    use cb::BreakerStrategy::*;
    for (s, name) in [(ErrorRatio, "error-ratio"), (SlowRequestRatio, "slow-ratio")] {
        for (t, ok) in [(0.0, true), (-1e-9, false), (0.5, true), (1.0, true), (1.0 + 1e-9, false), (2.0, false)] {
            v.push((format!("breaker {} threshold {:?}", name, t), AnyRule::Cb(c(s.clone(), t)), ok));
        }
    }
    for (t, ok) in [(0.0, true), (-1e-9, false), (1.0, true), (1.5, true), (1e9, true)] {
        v.push((format!("breaker error-count threshold {:?}", t), AnyRule::Cb(c(ErrorCount, t)), ok));
    }
    for (si, rt, ok) in [(0u32, 1000u32, false), (1, 1000, true), (1000, 0, false), (1000, 1, true), (u32::MAX, u32::MAX, true)] {
        v.push((format!("breaker stat_interval {} retry_timeout {}", si, rt), AnyRule::Cb(cb::Rule { stat_interval_ms: si, retry_timeout_ms: rt, ..c(ErrorCount, 3.0) }), ok));
    }
    v.push(("breaker bucket count not dividing the interval".into(), AnyRule::Cb(cb::Rule { stat_sliding_window_bucket_count: 3, ..c(ErrorCount, 3.0) }), true));

    let h = |m: hotspot::MetricType, d: u64| hotspot::Rule { id: "x".into(), resource: R.into(), metric_type: m, threshold: 5, duration_in_sec: d, ..Default::default() };
    v.push(("hotspot qps duration 0".into(), AnyRule::Hs(h(hotspot::MetricType::QPS, 0)), false));
    v.push(("hotspot qps duration 1".into(), AnyRule::Hs(h(hotspot::MetricType::QPS, 1)), true));
    v.push(("hotspot concurrency duration 0".into(), AnyRule::Hs(h(hotspot::MetricType::Concurrency, 0)), true));
    v.push(("hotspot threshold 0".into(), AnyRule::Hs(hotspot::Rule { threshold: 0, ..h(hotspot::MetricType::QPS, 1) }), true));
    for (i, key, ok) in [(1isize, "k", false), (0, "k", true), (-1, "k", true), (1, "", true), (isize::MAX, "", true), (isize::MIN, "", true)] {
        v.push((format!("hotspot index {} key {:?}", i, key), AnyRule::Hs(hotspot::Rule { param_index: i, param_key: key.into(), ..h(hotspot::MetricType::QPS, 1) }), ok));
    }

    for (t, ok) in [(0u32, false), (1, true), (u32::MAX, true)] {
        v.push((format!("isolation threshold {}", t), AnyRule::Iso(isolation::Rule { id: "x".into(), resource: R.into(), threshold: t, ..Default::default() }), ok));
    }
    v.push(("isolation empty resource".into(), AnyRule::Iso(isolation::Rule { id: "x".into(), resource: "".into(), threshold: 1, ..Default::default() }), false));

    use system::MetricType as M;
    for (m, name, hi) in [(M::CpuUsage, "cpu", 100.0), (M::Load, "load", 1.0)] {
        for (t, ok) in [(0.0, true), (-1e-9, false), (hi, true), (hi * (1.0 + 1e-12), false), (hi / 2.0, true)] {
            v.push((format!("system {} threshold {:?}", name, t), AnyRule::Sys(system::Rule { id: "x".into(), metric_type: m, threshold: t, ..Default::default() }), ok));
        }
    }
    for (m, name) in [(M::InboundQPS, "qps"), (M::Concurrency, "concurrency"), (M::AvgRT, "rt")] {
        for (t, ok) in [(0.0, true), (-1e-9, false), (1e12, true)] {
            v.push((format!("system {} threshold {:?}", name, t), AnyRule::Sys(system::Rule { id: "x".into(), metric_type: m, threshold: t, ..Default::default() }), ok));
        }
    }
    v
}

/// ids of the rules the family's manager holds, sorted
fn held(r: &AnyRule) -> Vec<String> {
    let mut v: Vec<String> = match r {
        AnyRule::Flow(_) => flow::get_rules().iter().map(|r| r.id.clone()).collect(),
        AnyRule::Cb(_) => cb::get_rules().iter().map(|r| r.id.clone()).collect(),
        AnyRule::Hs(_) => hotspot::get_rules().iter().map(|r| r.id.clone()).collect(),
        AnyRule::Iso(_) => isolation::get_rules().iter().map(|r| r.id.clone()).collect(),
        AnyRule::Sys(_) => system::get_rules().iter().map(|r| r.id.clone()).collect(),
    };
    v.sort();
    v
}

/// valid companions of the family: one on the same resource, one on another (system: other metrics)
fn companions(r: &AnyRule) -> (AnyRule, AnyRule) {
    match r {
        AnyRule::Flow(_) => (AnyRule::Flow(flow::Rule { id: "a".into(), resource: R.into(), threshold: 77.0, stat_interval_ms: 3000, ..Default::default() }), AnyRule::Flow(flow::Rule { id: "b".into(), resource: R2.into(), threshold: 5.0, ..Default::default() })),
        AnyRule::Cb(_) => {
            let b = cb::Rule { strategy: cb::BreakerStrategy::ErrorCount, retry_timeout_ms: 777, min_request_amount: 7, stat_interval_ms: 3000, threshold: 77.0, ..Default::default() };
            (AnyRule::Cb(cb::Rule { id: "a".into(), resource: R.into(), ..b.clone() }), AnyRule::Cb(cb::Rule { id: "b".into(), resource: R2.into(), ..b }))
        }
        AnyRule::Hs(_) => {
            let b = hotspot::Rule { metric_type: hotspot::MetricType::QPS, threshold: 77, duration_in_sec: 7, ..Default::default() };
            (AnyRule::Hs(hotspot::Rule { id: "a".into(), resource: R.into(), ..b.clone() }), AnyRule::Hs(hotspot::Rule { id: "b".into(), resource: R2.into(), ..b }))
        }
        AnyRule::Iso(_) => (AnyRule::Iso(isolation::Rule { id: "a".into(), resource: R.into(), threshold: 77, ..Default::default() }), AnyRule::Iso(isolation::Rule { id: "b".into(), resource: R2.into(), threshold: 5, ..Default::default() })),
        AnyRule::Sys(x) => {
            // two other metric types than the subject's
            let others: Vec<system::MetricType> = [system::MetricType::InboundQPS, system::MetricType::Concurrency, system::MetricType::AvgRT].into_iter().filter(|m| *m != x.metric_type).collect();
            (AnyRule::Sys(system::Rule { id: "a".into(), metric_type: others[0], threshold: 777.0, ..Default::default() }), AnyRule::Sys(system::Rule { id: "b".into(), metric_type: others[1], threshold: 778.0, ..Default::default() }))
        }
    }
}

fn load_all(rs: &[AnyRule]) {
    match &rs[0] {
        AnyRule::Flow(_) => {
            flow::load_rules(rs.iter().map(|r| if let AnyRule::Flow(x) = r { Arc::new(x.clone()) } else { unreachable!() }).collect());
        }
        AnyRule::Cb(_) => {
            cb::load_rules(rs.iter().map(|r| if let AnyRule::Cb(x) = r { Arc::new(x.clone()) } else { unreachable!() }).collect());
        }
        AnyRule::Hs(_) => {
            hotspot::load_rules(rs.iter().map(|r| if let AnyRule::Hs(x) = r { Arc::new(x.clone()) } else { unreachable!() }).collect());
        }
        AnyRule::Iso(_) => isolation::load_rules(rs.iter().map(|r| if let AnyRule::Iso(x) = r { Arc::new(x.clone()) } else { unreachable!() }).collect()),
        AnyRule::Sys(_) => system::load_rules(rs.iter().map(|r| if let AnyRule::Sys(x) = r { Arc::new(x.clone()) } else { unreachable!() }).collect()),
    }
}
fn append(r: &AnyRule) {
    match r {
        AnyRule::Flow(x) => {
            flow::append_rule(Arc::new(x.clone()));
        }
        AnyRule::Cb(x) => {
            cb::append_rule(Arc::new(x.clone()));
        }
        AnyRule::Hs(x) => {
            hotspot::append_rule(Arc::new(x.clone()));
        }
        AnyRule::Iso(x) => {
            isolation::append_rule(Arc::new(x.clone()));
        }
        AnyRule::Sys(x) => {
            system::append_rule(Arc::new(x.clone()));
        }
    }
}
/// load-for-resource of [a, r] on the subject's resource (None for the system family and for
/// rules without a resource name)
fn load_res(a: &AnyRule, r: &AnyRule) -> Option<()> {
    let res = R.to_string();
    match (a, r) {
        (AnyRule::Flow(a), AnyRule::Flow(x)) if !x.resource.is_empty() => flow::load_rules_of_resource(&res, vec![Arc::new(a.clone()), Arc::new(x.clone())]).ok().map(|_| ()),
        (AnyRule::Cb(a), AnyRule::Cb(x)) => cb::load_rules_of_resource(&res, vec![Arc::new(a.clone()), Arc::new(x.clone())]).ok().map(|_| ()),
        (AnyRule::Hs(a), AnyRule::Hs(x)) => hotspot::load_rules_of_resource(&res, vec![Arc::new(a.clone()), Arc::new(x.clone())]).ok().map(|_| ()),
        (AnyRule::Iso(a), AnyRule::Iso(x)) if !x.resource.is_empty() => isolation::load_rules_of_resource(&res, vec![Arc::new(a.clone()), Arc::new(x.clone())]).ok().map(|_| ()),
        _ => None,
    }
}

fn ids(with_x: bool, comps: &[&str]) -> Vec<String> {
    let mut v: Vec<String> = comps.iter().map(|s| s.to_string()).collect();
    if with_x {
        v.push("x".into());
    }
    v.sort();
    v
}

fn run_case(name: &str, r: &AnyRule, ok: bool) -> Result<u64, String> {
    let (a, b) = companions(r);
    let mut steps = 0;
    // 1. alone
    reset_world(T0_MS);
    load_all(&[r.clone()]);
    steps += 1;
    if held(r) != ids(ok, &[]) {
        return Err(format!("boundary-load: {} (expected {}): given alone to load_rules, the manager holds {:?}", name, if ok { "valid" } else { "invalid" }, held(r)));
    }
    // 2. between two valid companions, and in front of them
    for order in 0..2 {
        reset_world(T0_MS);
        if order == 0 {
            load_all(&[a.clone(), r.clone(), b.clone()]);
        } else {
            load_all(&[r.clone(), a.clone(), b.clone()]);
        }
        steps += 1;
        if held(r) != ids(ok, &["a", "b"]) {
            return Err(format!("boundary-load-among: {} (expected {}): given {} two valid rules, the manager holds {:?}", name, if ok { "valid" } else { "invalid" }, if order == 0 { "between" } else { "in front of" }, held(r)));
        }
    }
    // 3. appended to the companions
    reset_world(T0_MS);
    load_all(&[a.clone(), b.clone()]);
    append(r);
    steps += 1;
    if held(r) != ids(ok, &["a", "b"]) {
        return Err(format!("boundary-append: {} (expected {}): appended to two valid rules, the manager holds {:?}", name, if ok { "valid" } else { "invalid" }, held(r)));
    }
    // 4. load-for-resource next to the same-resource companion, the other resource untouched
    reset_world(T0_MS);
    load_all(&[b.clone()]);
    if load_res(&a, r).is_some() {
        steps += 1;
        if held(r) != ids(ok, &["a", "b"]) {
            return Err(format!("boundary-load-res: {} (expected {}): given to load_rules_of_resource with a valid rule, the manager holds {:?}", name, if ok { "valid" } else { "invalid" }, held(r)));
        }
    }
    reset_world(T0_MS);
    Ok(steps)
}

pub fn run(o: &Opts, stats: &mut Stats) -> Option<usize> {
    let cs = cases();
    if let Some(path) = &o.replay {
        let v: serde_json::Value = serde_json::from_str(&std::fs::read_to_string(path).unwrap()).unwrap();
        let name = v["config"]["boundary"].as_str().unwrap().to_string();
        let (n, r, ok) = cs.iter().find(|c| c.0 == name).expect("unknown boundary case");
        match run_case(n, r, *ok) {
            Err(why) => {
                println!("REPLAY-RESULT: violation: {}", why);
                stats.violations.push(Violation { sig: format!("validity-boundary:{}", why.split(':').next().unwrap()), config: v["config"].clone(), trace: json!({}), why });
            }
            Ok(_) => println!("REPLAY-RESULT: no violation"),
        }
        return None;
    }
    for (i, (name, r, ok)) in cs.iter().enumerate() {
        if !o.mine(i) {
            continue;
        }
        set_now_cfg(json!({"boundary": name}).to_string());
        stats.configs += 1;
        stats.executions += 1;
        let res = std::panic::catch_unwind(|| run_case(name, r, *ok));
        let res = match res {
            Ok(r) => r,
            Err(e) => Err(format!("panic@{}: {}: {}", last_panic_loc(), name, panic_msg(e).chars().take(200).collect::<String>())),
        };
        match res {
            Ok(steps) => {
                stats.transitions += steps;
                stats.nontrivial += 1;
                stats.bump(if *ok { "boundary_rules_valid" } else { "boundary_rules_invalid" }, 1);
            }
            Err(why) => {
                if stats.violations.len() < 25 {
                    stats.violations.push(Violation { sig: format!("validity-boundary:{}", why.split(':').next().unwrap()), config: json!({"boundary": name}), trace: json!({}), why });
                }
            }
        }
    }
    None
}
