//! C09 — system protection rejects inbound traffic exactly when a system metric trips.
use super::{run_configs, Pass};
use crate::common::*;
use crate::explore::Subject;
use crate::model::ledger::*;
use crate::model::window::*;
use crate::sut::*;
use sentinel_core::base::{EntryStrongPtr, TrafficType};
use sentinel_core::{system, system_metric};
use serde::{Deserialize, Serialize};
use std::sync::Arc;

#[derive(Serialize, Deserialize, Clone, Copy, Debug, PartialEq)]
pub enum Metric {
    Load,
    AvgRT,
    Concurrency,
    InboundQPS,
    CpuUsage,
}
#[derive(Serialize, Deserialize, Clone, Debug)]
pub struct RuleCfg {
    pub metric: Metric,
    pub bbr: bool,
    pub threshold: f64,
}
#[derive(Serialize, Deserialize, Clone, Debug)]
pub struct Cfg {
    pub rules: Vec<RuleCfg>,
    pub phase: u64,
    /// a fixed history instead of the explored alphabet (n, r, m): n inbound entries complete together
    /// after r ms (best completed rate 2n/s, minimum response time r), then m inbound entries are
    /// held in flight, the load/CPU reading is raised and one more inbound entry is requested:
    /// reaches "in flight == estimated capacity" exactly, which lies deeper than the explored bound
    #[serde(default)]
    pub script: Option<(u32, u64, u32)>,
}

#[derive(Clone, Debug)]
pub enum Op {
    /// (an inbound entry may ask for several tokens at once: the inbound QPS counts tokens)
    Build { inbound: bool, batch: u32 },
    Exit(usize),
    Advance(u64),
    SetLoad(f64),
    SetCpu(f32),
    /// reload the same rules with the adaptive strategy of every rule flipped
    FlipStrategy,
}

const RIN: &str = "c09-in";
const ROUT: &str = "c09-out";

struct Open {
    e: EntryStrongPtr,
    inbound: bool,
    start: u64,
    batch: u32,
}

pub struct C09 {
    cfg0: Cfg,
    cfg: Cfg,
    ledger: Ledger,
    open: Vec<Open>,
    load: f64,
    cpu: f32,
    admits: u32,
    rejects: u32,
    outbound: u32,
    bbr_spared: u64,
    step_no: usize,
    at_capacity: u64,
}

impl C09 {
    pub fn new(cfg: &Cfg) -> Self {
        C09 { cfg0: cfg.clone(), cfg: cfg.clone(), ledger: Ledger::default(), open: vec![], load: 0.0, cpu: 0.0, admits: 0, rejects: 0, outbound: 0, bbr_spared: 0, step_no: 0, at_capacity: 0 }
    }
    /// observed value of the rule's metric at time t, and whether it trips
    fn eval(&mut self, r: &RuleCfg, t: u64) -> (f64, bool) {
        let ib = self.ledger.node(INBOUND).clone();
        let conc = ib.inflight as f64;
        match r.metric {
            Metric::InboundQPS => {
                let v = ib.log.sum(NODE_RING, NODE_W, t, Kind::Pass) as f64;
                (v, v >= r.threshold)
            }
            Metric::Concurrency => (conc, conc >= r.threshold),
            Metric::AvgRT => {
                let c = ib.log.sum(NODE_RING, NODE_W, t, Kind::Complete);
                let rt = ib.log.sum(NODE_RING, NODE_W, t, Kind::Rt);
                let v = if c == 0 { 0.0 } else { rt as f64 / c as f64 };
                (v, v >= r.threshold)
            }
            Metric::Load | Metric::CpuUsage => {
                let v = if r.metric == Metric::Load { self.load } else { self.cpu as f64 };
                let mut trip = v > r.threshold;
                if trip && r.bbr {
                    // estimated capacity: best completed-per-second rate times minimum response time
                    let max_complete = ib.log.max_bucket(NODE_RING, NODE_W, t, Kind::Complete) as f64 * 2.0 / 1000.0 * 1000.0;
                    let min_rt = ib.log.min_rt(NODE_RING, NODE_W, t) as f64;
                    let over = conc > 1.0 && conc > max_complete * min_rt / 1000.0;
                    if !over {
                        self.bbr_spared += 1;
                    }
                    if conc > 1.0 && conc == max_complete * min_rt / 1000.0 {
                        self.at_capacity += 1;
                    }
                    trip = over;
                }
                (v, trip)
            }
        }
    }
}

fn metric_of(m: Metric) -> system::MetricType {
    match m {
        Metric::Load => system::MetricType::Load,
        Metric::AvgRT => system::MetricType::AvgRT,
        Metric::Concurrency => system::MetricType::Concurrency,
        Metric::InboundQPS => system::MetricType::InboundQPS,
        Metric::CpuUsage => system::MetricType::CpuUsage,
    }
}

impl C09 {
    fn load_rules(&self) {
        system::load_rules(
            self.cfg
                .rules
                .iter()
                .enumerate()
                .map(|(i, r)| Arc::new(system::Rule { id: format!("s{}", i), metric_type: metric_of(r.metric), threshold: r.threshold, strategy: if r.bbr { system::AdaptiveStrategy::BBR } else { system::AdaptiveStrategy::NoAdaptive } }))
                .collect(),
        );
    }
}

impl Subject for C09 {
    type Op = Op;
    fn reset(&mut self) {
        for o in self.open.drain(..) {
            o.e.exit();
        }
        self.cfg = self.cfg0.clone();
        reset_world(T0_MS + self.cfg.phase);
        self.ledger.clear();
        self.load = 0.0;
        self.cpu = 0.0;
        self.admits = 0;
        self.rejects = 0;
        self.outbound = 0;
        self.bbr_spared = 0;
        self.step_no = 0;
        self.at_capacity = 0;
        self.load_rules();
    }
    fn enabled(&self) -> Vec<Op> {
        if let Some((n, r, m)) = self.cfg0.script {
            let mut ops = vec![];
            for _ in 0..n {
                ops.push(Op::Build { inbound: true, batch: 1 });
            }
            ops.push(Op::Advance(r));
            for _ in 0..n {
                ops.push(Op::Exit(0));
            }
            for _ in 0..m {
                ops.push(Op::Build { inbound: true, batch: 1 });
            }
            if self.cfg0.rules[0].metric == Metric::Load {
                ops.push(Op::SetLoad(0.9));
            } else {
                ops.push(Op::SetCpu(90.0));
            }
            ops.push(Op::Build { inbound: true, batch: 1 });
            return ops.get(self.step_no).cloned().into_iter().collect();
        }
        let mut v = vec![Op::Build { inbound: true, batch: 1 }, Op::Build { inbound: false, batch: 1 }, Op::Build { inbound: true, batch: 3 }];
        for i in 0..self.open.len().min(4) {
            v.push(Op::Exit(i));
        }
        for d in [1, 10, 500, 1000] {
            v.push(Op::Advance(d));
        }
        let uses = |m: Metric| self.cfg.rules.iter().any(|r| r.metric == m);
        if uses(Metric::Load) {
            // readings around EVERY load rule's threshold (two rules of one metric may differ)
            let mut xs: Vec<f64> = vec![];
            for r in self.cfg.rules.iter().filter(|r| r.metric == Metric::Load) {
                for x in [r.threshold, r.threshold + 0.25, (r.threshold - 0.25).max(0.0)] {
                    if !xs.contains(&x) {
                        xs.push(x);
                    }
                }
            }
            for x in xs {
                v.push(Op::SetLoad(x));
            }
        }
        if uses(Metric::Load) || uses(Metric::CpuUsage) {
            v.push(Op::FlipStrategy);
        }
        if uses(Metric::CpuUsage) {
            let mut xs: Vec<f32> = vec![];
            for r in self.cfg.rules.iter().filter(|r| r.metric == Metric::CpuUsage) {
                let th = r.threshold as f32;
                for x in [th, th + 0.25, (th - 0.25).max(0.0)] {
                    if !xs.contains(&x) {
                        xs.push(x);
                    }
                }
            }
            for x in xs {
                v.push(Op::SetCpu(x));
            }
        }
        v
    }
    fn step(&mut self, op: &Op) -> Result<(), String> {
        self.step_no += 1;
        let t = now_ms();
        match op {
            Op::Advance(d) => advance_ms(*d),
            Op::SetLoad(x) => {
                self.load = *x;
                system_metric::verif_set_system_load(*x);
            }
            Op::SetCpu(x) => {
                self.cpu = *x;
                system_metric::verif_set_cpu_usage(*x);
            }
            Op::FlipStrategy => {
                for r in self.cfg.rules.iter_mut() {
                    r.bbr = !r.bbr;
                }
                self.load_rules();
            }
            Op::Exit(i) => {
                let o = self.open.remove(*i);
                o.e.exit();
                self.ledger.complete(if o.inbound { RIN } else { ROUT }, o.inbound, t, o.batch as u64, t - o.start);
            }
            Op::Build { inbound, batch } => {
                if self.open.len() >= 4 {
                    return Ok(());
                }
                let res = if *inbound { RIN } else { ROUT };
                let rules = self.cfg.rules.clone();
                let valid = |r: &RuleCfg| r.threshold >= 0.0 && !(r.metric == Metric::CpuUsage && r.threshold > 100.0) && !(r.metric == Metric::Load && r.threshold > 1.0);
                let tripping: Vec<(usize, f64)> = rules.iter().enumerate().filter(|(_, r)| valid(r)).map(|(i, r)| (i, self.eval(r, t))).filter(|(_, (_, trip))| *trip).map(|(i, (v, _))| (i, v)).collect();
                let expect_reject = *inbound && !tripping.is_empty();
                let tt = if *inbound { TrafficType::Inbound } else { TrafficType::Outbound };
                self.ledger.touch(res);
                match build(res, tt, *batch) {
                    Built::Ok(e) => {
                        if expect_reject {
                            return Err(format!("admitted-although-tripped: inbound entry admitted at t=+{} although rule s{} trips (observed {})", t - T0_MS, tripping[0].0, tripping[0].1));
                        }
                        self.ledger.pass(res, *inbound, t, *batch as u64);
                        self.open.push(Open { e, inbound: *inbound, start: t, batch: *batch });
                        if *inbound {
                            self.admits += 1;
                        } else {
                            self.outbound += 1;
                        }
                    }
                    Built::Blocked(b, text) => {
                        if !*inbound {
                            return Err(format!("outbound-rejected: {}", text.chars().take(160).collect::<String>()));
                        }
                        if !expect_reject {
                            return Err(format!("rejected-without-trip: inbound entry rejected at t=+{} although no rule trips: {}", t - T0_MS, text.chars().take(200).collect::<String>()));
                        }
                        if b.block_type != "SystemFlow" {
                            return Err(format!("block-type: {}", b.block_type));
                        }
                        let named = b.rule_id.clone().unwrap_or_default();
                        match tripping.iter().find(|(i, _)| format!("s{}", i) == named) {
                            None => return Err(format!("rule-named: {:?} but the tripping rules are {:?}", b.rule_id, tripping)),
                            Some((_, v)) => {
                                let snap: f64 = b.snapshot.clone().unwrap_or_default().parse().unwrap_or(f64::NAN);
                                if snap != *v {
                                    return Err(format!("observed-value: block carries {:?}, the rule's metric reads {}", b.snapshot, v));
                                }
                            }
                        }
                        self.ledger.block(res, true, t, *batch as u64);
                        self.rejects += 1;
                    }
                }
            }
        }
        Ok(())
    }
    fn nontrivial(&self) -> bool {
        self.admits >= 1 && self.rejects >= 1
    }
    fn outcome(&self) -> String {
        format!("a{}r{}o{}", self.admits.min(4), self.rejects.min(4), self.outbound.min(2))
    }
    fn counters(&self) -> Vec<(&'static str, u64)> {
        vec![("bbr_spared_a_request_above_threshold", self.bbr_spared), ("bbr_decisions_with_in_flight_equal_to_capacity", self.at_capacity)]
    }
}

pub fn configs(thorough: bool) -> Vec<Cfg> {
    let mut v = vec![];
    let mut k = 0u64;
    for metric in [Metric::InboundQPS, Metric::Concurrency, Metric::AvgRT, Metric::Load, Metric::CpuUsage] {
        for bbr in [false, true] {
            for threshold in [0.0, 0.5, 1.0, 2.0, 3.0, 10.0] {
                if metric == Metric::Load && threshold > 1.0 {
                    continue;
                }
                k += 1;
                v.push(Cfg { rules: vec![RuleCfg { metric, bbr, threshold }], phase: [0, 499, 1, 250][(k % 4) as usize], script: None });
            }
        }
    }
    let pairs = [
        (Metric::InboundQPS, 3.0, Metric::Concurrency, 2.0),
        (Metric::Concurrency, 3.0, Metric::AvgRT, 10.0),
        (Metric::Load, 0.5, Metric::InboundQPS, 2.0),
        (Metric::CpuUsage, 1.0, Metric::Load, 0.5),
        (Metric::AvgRT, 1.0, Metric::InboundQPS, 2.0),
    ];
    for (a, ta, b, tb) in pairs {
        for (ba, bb) in [(false, false), (true, true)] {
            if !thorough && ba && !matches!(a, Metric::Load | Metric::CpuUsage) {
                continue;
            }
            v.push(Cfg { rules: vec![RuleCfg { metric: a, bbr: ba, threshold: ta }, RuleCfg { metric: b, bbr: bb, threshold: tb }], phase: 250, script: None });
        }
    }
    // two rules of the same metric (they share one bucket of the manager's map): the tighter one decides
    for (m, a, b) in [(Metric::Concurrency, 3.0, 1.0), (Metric::InboundQPS, 1.0, 3.0), (Metric::AvgRT, 10.0, 1.0), (Metric::Load, 0.5, 0.0)] {
        v.push(Cfg { rules: vec![RuleCfg { metric: m, bbr: false, threshold: a }, RuleCfg { metric: m, bbr: false, threshold: b }], phase: 1, script: None });
    }
    // two rules of the same metric with DIFFERENT strategies: the adaptive one (lower threshold) may
    // spare a request that the plain one (higher threshold) must still reject
    for (m, lo, hi) in [(Metric::Load, 0.25, 0.5), (Metric::CpuUsage, 0.5, 1.0)] {
        v.push(Cfg { rules: vec![RuleCfg { metric: m, bbr: true, threshold: lo }, RuleCfg { metric: m, bbr: false, threshold: hi }], phase: 0, script: None });
        v.push(Cfg { rules: vec![RuleCfg { metric: m, bbr: false, threshold: hi }, RuleCfg { metric: m, bbr: true, threshold: lo }], phase: 250, script: None });
    }
    // scripted histories that reach "in flight == estimated capacity" under BBR
    for metric in [Metric::Load, Metric::CpuUsage] {
        for (n, r) in [(1u32, 500u64), (1, 1000), (2, 250), (2, 500), (3, 250), (3, 500), (1, 250), (2, 1000)] {
            for m in 1..=3u32 {
                v.push(Cfg { rules: vec![RuleCfg { metric, bbr: true, threshold: 0.25 }], phase: 0, script: Some((n, r, m)) });
            }
        }
    }
    // an invalid rule next to a valid one must be ignored
    v.push(Cfg { rules: vec![RuleCfg { metric: Metric::Load, bbr: false, threshold: 2.0 }, RuleCfg { metric: Metric::Concurrency, bbr: false, threshold: 1.0 }], phase: 0, script: None });
    v
}

pub fn run(o: &Opts, stats: &mut Stats) -> Option<usize> {
    let cfgs = configs(o.thorough);
    let thorough = o.thorough;
    run_configs(o, stats, &cfgs, |c, _| C09::new(c), &move |c: &Cfg| {
        if c.script.is_some() {
            vec![Pass { depth: 14, max_dev: 0 }]
        } else if thorough {
            vec![Pass { depth: 8, max_dev: 4 }]
        } else {
            vec![Pass { depth: 6, max_dev: 3 }]
        }
    })
}
