//! C02 — sliding-window statistics report exactly the events inside the window.
use super::{run_configs, Pass};
use crate::common::*;
use crate::explore::Subject;
use crate::model::window::*;
use crate::sut::*;
use sentinel_core::base::{MetricEvent, ReadStat, ResourceType, StatNode, WriteStat};
use sentinel_core::config::{self, ConfigEntity};
use sentinel_core::stat::verif_export::{BucketLeapArray, ResourceNode, SlidingWindowMetric};
use serde::{Deserialize, Serialize};
use std::sync::Arc;

#[derive(Serialize, Deserialize, Clone, Debug)]
pub struct Cfg {
    pub n: u32,
    pub len: u32,
    pub sc: u32,
    pub iv: u32,
    pub phase: u64,
}

#[derive(Clone, Debug)]
pub enum Op {
    Write { kind: Kind, count: u64, dt: u64 },
}

fn ev(k: Kind) -> MetricEvent {
    match k {
        Kind::Pass => MetricEvent::Pass,
        Kind::Block => MetricEvent::Block,
        Kind::Complete => MetricEvent::Complete,
        Kind::Error => MetricEvent::Error,
        Kind::Rt => MetricEvent::Rt,
    }
}

/// independent validity predicate for a read window (sc, iv) over a ring of n buckets of len ms
pub fn reader_valid(n: u32, len: u32, sc: u32, iv: u32) -> bool {
    let total = n as u64 * len as u64;
    iv > 0 && sc > 0 && iv % sc == 0 && total % iv as u64 == 0 && (iv / sc) % len == 0
}

pub struct C02 {
    cfg: Cfg,
    ring: Ring,
    valid: bool,
    arr: Option<Arc<BucketLeapArray>>,
    reader: Option<SlidingWindowMetric>,
    node: Option<ResourceNode>,
    node_reader: Option<Arc<dyn ReadStat>>,
    /// a second node whose DEFAULT metric has the same interval but another valid sample count, and
    /// the read stat generated from it for the geometry under test
    node2: Option<ResourceNode>,
    node2_reader: Option<Arc<dyn ReadStat>>,
    ctor_err: Option<String>,
    log: EventLog,
    dts: Vec<u64>,
    kinds_seen: u8,
    expired: bool,
    reads: u64,
    aligned_stale: u64,
    prev_overwritten: u64,
}

impl C02 {
    pub fn new(cfg: &Cfg) -> Self {
        let l = cfg.len as u64;
        let total = cfg.n as u64 * l;
        let w = if cfg.iv > 0 { cfg.iv as u64 } else { l };
        let mut dts = vec![0, 1, l.saturating_sub(1), l, l + 1, w, total.saturating_sub(1), total, total + 1, 3 * total];
        dts.sort();
        dts.dedup();
        C02 {
            cfg: cfg.clone(),
            ring: Ring { n: cfg.n as u64, len: l },
            valid: reader_valid(cfg.n, cfg.len, cfg.sc, cfg.iv),
            arr: None,
            reader: None,
            node: None,
            node_reader: None,
            node2: None,
            node2_reader: None,
            ctor_err: None,
            log: EventLog::default(),
            dts,
            kinds_seen: 0,
            expired: false,
            reads: 0,
            aligned_stale: 0,
            prev_overwritten: 0,
        }
    }

    /// fold over retained events whose bucket start lies in [lo, hi]
    fn fold(&self, lo: i128, hi: i128, k: Kind) -> (u64, u64, u64) {
        // (sum, min value, max single bucket)
        let mut sum = 0;
        let mut min = 60000u64;
        let mut per: std::collections::BTreeMap<u64, u64> = Default::default();
        for (t, kk, c) in &self.log.events {
            if *kk != k {
                continue;
            }
            let b = *t - *t % self.ring.len;
            if (b as i128) < lo || (b as i128) > hi || !self.log.retained(self.ring, *t) {
                continue;
            }
            sum += c;
            min = min.min(*c);
            *per.entry(b).or_insert(0) += c;
        }
        (sum, min, per.values().copied().max().unwrap_or(0))
    }

    fn check_reads(&mut self, t: u64, via_clock: bool) -> Result<(), String> {
        let w = self.cfg.iv as u64;
        let reader = self.reader.as_ref().unwrap();
        let (lo, hi) = EventLog::range(self.ring, w, t);
        self.reads += 1;
        let secs = w as f64 / 1000.0;
        for k in KINDS {
            let plain = self.log.sum(self.ring, w, t, k);
            let (want, _, maxb) = self.fold(lo, hi, k);
            if plain != want {
                return Err(format!("model-self-check: a bucket of the window at the current time was overwritten (t=+{})", t - T0_MS));
            }
            let got = reader.sum_with_time(t, ev(k));
            if got != want {
                return Err(format!("sum_with_time: {:?} at t=+{} window {} ms: got {} want {}", k, t - T0_MS, w, got, want));
            }
            let q = reader.qps_with_time(t, ev(k));
            if q != want as f64 / secs {
                return Err(format!("qps_with_time: {:?} at t=+{}: got {} want {}", k, t - T0_MS, q, want as f64 / secs));
            }
            if via_clock {
                // the *_now readers, directly and through a real ResourceNode + generated read stat
                let node = self.node.as_ref().unwrap();
                let gen = self.node_reader.as_ref().unwrap();
                for (name, r) in [("reader", reader as &dyn ReadStat), ("node", node as &dyn ReadStat), ("generated", gen.as_ref())] {
                    if r.sum(ev(k)) != want {
                        return Err(format!("ReadStat::sum via {}: {:?} at t=+{}: got {} want {}", name, k, t - T0_MS, r.sum(ev(k)), want));
                    }
                    if r.qps(ev(k)) != want as f64 / secs {
                        return Err(format!("ReadStat::qps via {}: {:?} at t=+{}: got {} want {}", name, k, t - T0_MS, r.qps(ev(k)), want as f64 / secs));
                    }
                }
                let ma = node.max_avg(ev(k));
                let want_ma = maxb as f64 * self.cfg.sc as f64 / self.cfg.iv as f64 * 1000f64;
                if ma != want_ma {
                    return Err(format!("max_avg: {:?} at t=+{}: got {} want {}", k, t - T0_MS, ma, want_ma));
                }
                // previous window (ends one read-bucket earlier); retained-aware, counted separately
                let lr = (self.cfg.iv / self.cfg.sc) as u64;
                let tp = t - lr;
                let (plo, phi) = EventLog::range(self.ring, w, tp);
                let (wantp, _, _) = self.fold(plo, phi, k);
                if self.log.sum(self.ring, w, tp, k) != wantp {
                    self.prev_overwritten += 1;
                }
                for (name, r) in [("reader", reader as &dyn ReadStat), ("node", node as &dyn ReadStat)] {
                    let g = r.qps_previous(ev(k));
                    if g != wantp as f64 / secs {
                        return Err(format!("qps_previous via {}: {:?} at t=+{}: got {} want {}", name, k, t - T0_MS, g, wantp as f64 / secs));
                    }
                }
                if let Some(g2) = &self.node2_reader {
                    let name = "the read stat generated on a node with another default sample count";
                    if g2.sum(ev(k)) != want {
                        return Err(format!("ReadStat::sum via {}: {:?} at t=+{}: got {} want {}", name, k, t - T0_MS, g2.sum(ev(k)), want));
                    }
                    if g2.qps(ev(k)) != want as f64 / secs {
                        return Err(format!("ReadStat::qps via {}: {:?} at t=+{}: got {} want {}", name, k, t - T0_MS, g2.qps(ev(k)), want as f64 / secs));
                    }
                    let g = g2.qps_previous(ev(k));
                    if g != wantp as f64 / secs {
                        return Err(format!("qps_previous via {}: {:?} at t=+{}: got {} want {}", name, k, t - T0_MS, g, wantp as f64 / secs));
                    }
                }
            }
        }
        if via_clock {
            let (c, _, _) = self.fold(lo, hi, Kind::Complete);
            let (rt, minrt, _) = self.fold(lo, hi, Kind::Rt);
            let want_avg = if c == 0 { 0f64 } else { rt as f64 / c as f64 };
            let node = self.node.as_ref().unwrap();
            for (name, r) in [("reader", reader as &dyn ReadStat), ("node", node as &dyn ReadStat)] {
                if r.avg_rt() != want_avg {
                    return Err(format!("avg_rt via {}: at t=+{}: got {} want {}", name, t - T0_MS, r.avg_rt(), want_avg));
                }
                if r.min_rt() != minrt as f64 {
                    return Err(format!("min_rt via {}: at t=+{}: got {} want {}", name, t - T0_MS, r.min_rt(), minrt));
                }
            }
        }
        // whole-ring count: every retained bucket whose start is within [t - n*len, t]
        let total = self.ring.n * self.ring.len;
        let arr = self.arr.as_ref().unwrap();
        for k in KINDS {
            let (want, _, _) = self.fold(t as i128 - total as i128, t as i128, k);
            let strict = self.fold(t as i128 - total as i128 + 1, t as i128, k).0;
            if want != strict {
                self.aligned_stale += 1;
            }
            let got = arr.count_with_time(t, ev(k));
            if got != want {
                return Err(format!("count_with_time: {:?} at t=+{}: got {} want {}", k, t - T0_MS, got, want));
            }
        }
        Ok(())
    }
}

impl Subject for C02 {
    type Op = Op;
    fn reset(&mut self) {
        reset_world(T0_MS + self.cfg.phase);
        self.log.clear();
        self.kinds_seen = 0;
        self.expired = false;
        self.reads = 0;
        self.aligned_stale = 0;
        self.prev_overwritten = 0;
        self.ctor_err = None;
        self.reader = None;
        self.node = None;
        self.node_reader = None;
        self.node2 = None;
        self.node2_reader = None;
        let arr = match BucketLeapArray::new(self.cfg.n, self.cfg.n * self.cfg.len) {
            Ok(a) => Arc::new(a),
            Err(e) => {
                self.ctor_err = Some(format!("inner-ctor-refused: valid ring {}x{} refused: {}", self.cfg.n, self.cfg.len, e));
                return;
            }
        };
        let r = SlidingWindowMetric::new(self.cfg.sc, self.cfg.iv, arr.clone());
        match (r, self.valid) {
            (Ok(r), true) => self.reader = Some(r),
            (Err(_), false) => {}
            (Ok(_), false) => self.ctor_err = Some(format!("reader-accepted: read window ({}, {} ms) over ring {}x{} ms cannot be served but was accepted", self.cfg.sc, self.cfg.iv, self.cfg.n, self.cfg.len)),
            (Err(e), true) => self.ctor_err = Some(format!("reader-refused: servable read window ({}, {} ms) over ring {}x{} ms refused: {}", self.cfg.sc, self.cfg.iv, self.cfg.n, self.cfg.len, e)),
        }
        self.arr = Some(arr);
        let mk_node = |sc: u32, this: &Self| -> ResourceNode {
            let mut e = ConfigEntity::new();
            e.config.stat.sample_count_total = this.cfg.n;
            e.config.stat.interval_ms_total = this.cfg.n * this.cfg.len;
            e.config.stat.sample_count = sc;
            e.config.stat.interval_ms = this.cfg.iv;
            config::reset_global_config(e);
            let node = ResourceNode::new("c02-node".into(), ResourceType::Common);
            config::reset_global_config(ConfigEntity::new());
            node
        };
        if self.valid && self.ctor_err.is_none() {
            // a real ResourceNode of the same geometry
            let node = mk_node(self.cfg.sc, self);
            match node.generate_read_stat(self.cfg.sc, self.cfg.iv) {
                Ok(g) => self.node_reader = Some(g),
                Err(e) => self.ctor_err = Some(format!("reader-refused: generate_read_stat({}, {}) refused: {}", self.cfg.sc, self.cfg.iv, e)),
            }
            self.node = Some(node);
        }
        // a second node whose DEFAULT metric has the same interval but another valid sample count:
        // the read stat asked for must be built (or refused) for the geometry asked for, not
        // answered with the node's default metric
        let alt_sc = [1u32, 2, 3, 4, 5, 6, 10, 20].into_iter().find(|s| *s != self.cfg.sc && reader_valid(self.cfg.n, self.cfg.len, *s, self.cfg.iv));
        if let (Some(alt), None) = (alt_sc, &self.ctor_err) {
            let node2 = mk_node(alt, self);
            match (node2.generate_read_stat(self.cfg.sc, self.cfg.iv), self.valid) {
                (Ok(g), true) => self.node2_reader = Some(g),
                (Err(e), true) => self.ctor_err = Some(format!("reader-refused: generate_read_stat({}, {}) on a node whose default metric is ({}, {}) refused: {}", self.cfg.sc, self.cfg.iv, alt, self.cfg.iv, e)),
                (Ok(_), false) => self.ctor_err = Some(format!("reader-accepted: generate_read_stat({}, {} ms) on a node over ring {}x{} ms (default metric ({}, {} ms)) cannot be served but was accepted", self.cfg.sc, self.cfg.iv, self.cfg.n, self.cfg.len, alt, self.cfg.iv)),
                (Err(_), false) => {}
            }
            if self.valid {
                self.node2 = Some(node2);
            }
        }
    }
    fn enabled(&self) -> Vec<Op> {
        if !self.valid || self.ctor_err.is_some() {
            // one step so that a constructor verdict is reported; refused geometries have no behaviour
            return vec![Op::Write { kind: Kind::Pass, count: 1, dt: 0 }];
        }
        let mut v = vec![];
        for dt in &self.dts {
            v.push(Op::Write { kind: Kind::Pass, count: 1, dt: *dt });
        }
        for (k, c) in [(Kind::Pass, 3), (Kind::Block, 1), (Kind::Complete, 1), (Kind::Complete, 3), (Kind::Error, 1), (Kind::Rt, 1), (Kind::Rt, 3), (Kind::Rt, 70000), (Kind::Rt, 0), (Kind::Pass, 0)] {
            v.push(Op::Write { kind: k, count: c, dt: 0 });
        }
        v
    }
    fn step(&mut self, op: &Op) -> Result<(), String> {
        if let Some(e) = &self.ctor_err {
            return Err(e.clone());
        }
        if !self.valid {
            return Ok(());
        }
        let Op::Write { kind, count, dt } = op;
        advance_ms(*dt);
        let t = now_ms();
        if *dt > self.ring.n * self.ring.len {
            self.expired = true;
        }
        // raw array with explicit time, node through the clock
        self.arr.as_ref().unwrap().add_count_with_time(t, ev(*kind), *count).map_err(|e| format!("write-refused: non-decreasing write at t=+{} refused: {}", t - T0_MS, e))?;
        self.node.as_ref().unwrap().add_count(ev(*kind), *count);
        if let Some(n2) = &self.node2 {
            n2.add_count(ev(*kind), *count);
        }
        self.log.record(t, *kind, *count);
        self.kinds_seen |= 1 << (*kind as u8);
        // node and raw array must agree, so the reader over the raw array is checked with explicit
        // time and the node through the clock
        self.check_reads(t, true)?;
        // cross-check the node's own ring against the raw one
        let narr = self.node.as_ref().unwrap().verif_global_array();
        for k in KINDS {
            if narr.count_with_time(t, ev(k)) != self.arr.as_ref().unwrap().count_with_time(t, ev(k)) {
                return Err(format!("node-vs-raw: {:?} at t=+{}", k, t - T0_MS));
            }
        }
        Ok(())
    }
    fn finish(&mut self) -> Result<(), String> {
        if !self.valid || self.ctor_err.is_some() {
            return Ok(());
        }
        // reads are side-effect free: read at every later offset as well
        let t0 = now_ms();
        for dt in self.dts.clone() {
            sentinel_verif_rt::clock::set_ms(t0 + dt);
            self.check_reads(t0 + dt, true)?;
        }
        sentinel_verif_rt::clock::set_ms(t0);
        Ok(())
    }
    fn nontrivial(&self) -> bool {
        self.valid && self.kinds_seen.count_ones() >= 2 && self.log.events.len() >= 3 && self.log.events.first().map(|e| e.0) != self.log.events.last().map(|e| e.0)
    }
    fn counters(&self) -> Vec<(&'static str, u64)> {
        vec![("read_points", self.reads), ("reads_where_aligned_stale_bucket_counts", self.aligned_stale), ("previous_window_reads_with_overwritten_bucket", self.prev_overwritten)]
    }
    fn outcome(&self) -> String {
        if !self.valid {
            return "refused".into();
        }
        let t = now_ms();
        format!("sum={}{}", self.log.sum(self.ring, self.cfg.iv as u64, t, Kind::Pass).min(9), if self.expired { "+expired" } else { "" })
    }
}

pub fn configs(thorough: bool) -> Vec<Cfg> {
    let ns: &[u32] = if thorough { &[1, 2, 3, 4, 5, 10, 20] } else { &[1, 2, 4, 20] };
    let lens: &[u32] = if thorough { &[1, 2, 3, 7, 10, 100, 500, 1000] } else { &[1, 3, 500] };
    let mut v = vec![];
    for &n in ns {
        for &len in lens {
            let total = n * len;
            let mut ivs = vec![0, len, 2 * len, 3 * len, total / 2, total, 2 * total, total + 1];
            ivs.sort();
            ivs.dedup();
            for &iv in &ivs {
                for sc in [0u32, 1, 2, 3, 4, 5, 6, 10, 20] {
                    let valid = reader_valid(n, len, sc, iv);
                    let phases: &[u64] = if valid { &[0, 1] } else { &[0] };
                    for &phase in phases {
                        v.push(Cfg { n, len, sc, iv, phase });
                    }
                }
            }
        }
    }
    v
}

pub fn run(o: &Opts, stats: &mut Stats) -> Option<usize> {
    let cfgs = configs(o.thorough);
    let thorough = o.thorough;
    let r = run_configs(
        o,
        stats,
        &cfgs,
        |c, _| C02::new(c),
        &move |c: &Cfg| {
            if !reader_valid(c.n, c.len, c.sc, c.iv) {
                vec![Pass { depth: 1, max_dev: 0 }]
            } else if thorough {
                vec![Pass { depth: 6, max_dev: 3 }]
            } else {
                vec![Pass { depth: 5, max_dev: 2 }]
            }
        },
    );
    // invalid inner rings must be refused by the constructor itself
    if o.shard == 0 && o.replay.is_none() {
        for (sc, iv) in [(0u32, 1000u32), (3, 1000), (7, 500), (0, 0)] {
            stats.bump("inner_ctor_cases", 1);
            if BucketLeapArray::new(sc, iv).is_ok() {
                stats.violations.push(Violation { sig: "inner-ctor-accepted".into(), config: serde_json::json!({"sc": sc, "iv": iv}), trace: serde_json::json!({}), why: format!("inner-ctor-accepted: LeapArray::new({}, {}) accepted a non-dividing geometry", sc, iv) });
            }
        }
    }
    r
}
