//! C11 — hot reload keeps the state of unchanged rules and applies changed ones at once.
//!
//! Differential oracle with no hand-written expectation: a base traffic history is run once
//! without any reload; then, for every insertion point and every reload variant, the same history
//! is run with the reload inserted, and every later observation (decision, wait, breaker state,
//! listener log) must equal the reload-free run. Controllers / breakers of the unchanged rules
//! must be the same objects (Arc::ptr_eq) before and after.
use crate::common::*;
use crate::sut::*;
use sentinel_core::base::{EntryStrongPtr, TrafficType};
use sentinel_core::{circuitbreaker as cb, flow, hotspot};
use sentinel_verif_rt::clock;
use serde::{Deserialize, Serialize};
use serde_json::json;
use std::sync::{Arc, Mutex};

const R: &str = "c11-res";
const U: &str = "c11-unrelated";

#[derive(Serialize, Deserialize, Clone, Copy, Debug, PartialEq)]
pub enum Family {
    FlowGlobal,
    FlowPrivate,
    FlowThrottling,
    FlowWarmUp,
    HotspotQps,
    HotspotThrottling,
    HotspotConcurrency,
    BreakerErrors,
    BreakerOpen,
    BreakerHalfOpen,
    /// error-ratio and slow-request-ratio subjects (the three above use error counts)
    BreakerRatio,
    BreakerSlow,
}

#[derive(Serialize, Deserialize, Clone, Copy, Debug, PartialEq)]
pub enum Variant {
    LoadAllSame,
    LoadAllNewIds,
    LoadAllReordered,
    LoadAllUnrelatedAdded,
    LoadAllUnrelatedChanged,
    LoadAllUnrelatedRemoved,
    LoadResSame,
    /// a parameter of the subject rule changes: must apply to the very next entry
    Changed,
    /// differential with no hand-written expectation for ANY changed parameter: the subject rule
    /// is re-loaded with parameter `alt` changed before any traffic (`reverse`: the changed rule
    /// first, the base rule re-loaded); every observation of the history must equal the run in
    /// which the final rule was loaded from the start
    FreshEquivalent,
    /// parameter `alt` of the subject rule changes in the MIDDLE of the traffic history (before
    /// step `at`), the history runs on, everything is exited and a long quiet period passes (to
    /// an instant congruent with the start for every window length in use); the history is then
    /// driven again: every observation must equal the run of a fresh world that had the changed
    /// rule from the start. Nothing of the old rule or of the traffic it saw may linger, and no
    /// step may panic or hang on the way.
    MidChange,
}

#[derive(Serialize, Deserialize, Clone, Debug)]
pub struct Cfg {
    pub family: Family,
    pub variant: Variant,
    /// the reload is inserted before step `at` of the history
    pub at: usize,
    /// FreshEquivalent: which parameter changes (index into `alts(family)`)
    #[serde(default)]
    pub alt: usize,
    /// FreshEquivalent: re-load through load_rules_of_resource instead of load_rules
    #[serde(default)]
    pub per_resource: bool,
    #[serde(default)]
    pub reverse: bool,
}

#[derive(Clone, Debug)]
enum Step {
    Arrive { gap: u64 },
    Burst { gap: u64, n: u32 },
    Enter { gap: u64 },
    ExitOldest { gap: u64, err: bool },
}

fn history(f: Family) -> Vec<Step> {
    use Step::*;
    match f {
        Family::FlowGlobal | Family::FlowPrivate => vec![Arrive { gap: 0 }, Arrive { gap: 100 }, Arrive { gap: 100 }, Arrive { gap: 300 }, Arrive { gap: 300 }, Arrive { gap: 100 }, Arrive { gap: 200 }, Arrive { gap: 0 }, Arrive { gap: 700 }, Arrive { gap: 0 }],
        Family::FlowThrottling | Family::HotspotThrottling => vec![Arrive { gap: 0 }, Arrive { gap: 0 }, Arrive { gap: 0 }, Arrive { gap: 100 }, Arrive { gap: 0 }, Arrive { gap: 0 }, Arrive { gap: 400 }, Arrive { gap: 0 }],
        Family::FlowWarmUp => vec![Burst { gap: 0, n: 130 }, Burst { gap: 1000, n: 130 }, Burst { gap: 1000, n: 130 }, Burst { gap: 1000, n: 130 }, Burst { gap: 1000, n: 130 }, Burst { gap: 1000, n: 130 }],
        Family::HotspotQps => vec![Arrive { gap: 0 }, Arrive { gap: 0 }, Arrive { gap: 0 }, Arrive { gap: 0 }, Arrive { gap: 600 }, Arrive { gap: 600 }, Arrive { gap: 0 }, Arrive { gap: 0 }, Arrive { gap: 1100 }, Arrive { gap: 0 }],
        Family::HotspotConcurrency => vec![Enter { gap: 0 }, Enter { gap: 1 }, Enter { gap: 1 }, ExitOldest { gap: 1, err: false }, Enter { gap: 1 }, Enter { gap: 1 }, ExitOldest { gap: 1, err: false }, ExitOldest { gap: 1, err: false }, Enter { gap: 0 }],
        Family::BreakerErrors => vec![Enter { gap: 0 }, ExitOldest { gap: 1, err: true }, Enter { gap: 1 }, ExitOldest { gap: 1, err: true }, Enter { gap: 1 }, ExitOldest { gap: 1, err: true }, Enter { gap: 1 }, Enter { gap: 600 }, ExitOldest { gap: 1, err: false }, Enter { gap: 1 }],
        Family::BreakerOpen => vec![Enter { gap: 0 }, ExitOldest { gap: 1, err: true }, Enter { gap: 1 }, Enter { gap: 100 }, Enter { gap: 300 }, Enter { gap: 100 }, ExitOldest { gap: 10, err: true }, Enter { gap: 10 }, Enter { gap: 500 }],
        Family::BreakerHalfOpen => vec![Enter { gap: 0 }, ExitOldest { gap: 1, err: true }, Enter { gap: 500 }, Enter { gap: 1 }, Enter { gap: 1 }, ExitOldest { gap: 1, err: false }, Enter { gap: 1 }, ExitOldest { gap: 1, err: true }, Enter { gap: 1 }],
        Family::BreakerRatio => vec![Enter { gap: 0 }, ExitOldest { gap: 1, err: true }, Enter { gap: 1 }, ExitOldest { gap: 1, err: false }, Enter { gap: 1 }, ExitOldest { gap: 1, err: true }, Enter { gap: 1 }, Enter { gap: 600 }, ExitOldest { gap: 1, err: false }, Enter { gap: 1 }, ExitOldest { gap: 1, err: true }, Enter { gap: 1 }],
        Family::BreakerSlow => vec![Enter { gap: 0 }, ExitOldest { gap: 300, err: false }, Enter { gap: 1 }, ExitOldest { gap: 1, err: false }, Enter { gap: 1 }, ExitOldest { gap: 300, err: false }, Enter { gap: 1 }, Enter { gap: 600 }, ExitOldest { gap: 1, err: false }, Enter { gap: 1 }, ExitOldest { gap: 300, err: false }, Enter { gap: 1 }],
    }
}

// ---- rule sets -------------------------------------------------------------------------------

fn flow_subject(f: Family, id: &str, changed: bool) -> Arc<flow::Rule> {
    let mut r = flow::Rule { id: id.into(), resource: R.into(), ..Default::default() };
    match f {
        Family::FlowGlobal => {
            r.threshold = if changed { 4.0 } else { 2.0 };
            r.stat_interval_ms = 1000;
        }
        Family::FlowPrivate => {
            r.threshold = if changed { 4.0 } else { 2.0 };
            r.stat_interval_ms = 700;
        }
        Family::FlowThrottling => {
            r.threshold = if changed { 10.0 } else { 4.0 };
            r.control_strategy = flow::ControlStrategy::Throttling;
            r.max_queueing_time_ms = 600;
            r.stat_interval_ms = 1000;
        }
        Family::FlowWarmUp => {
            r.threshold = if changed { 60.0 } else { 100.0 };
            r.calculate_strategy = flow::CalculateStrategy::WarmUp;
            r.warm_up_period_sec = 3;
            r.warm_up_cold_factor = 3;
        }
        _ => unreachable!(),
    }
    Arc::new(r)
}
fn flow_lax(id: &str) -> Arc<flow::Rule> {
    Arc::new(flow::Rule { id: id.into(), resource: R.into(), threshold: 1000.0, stat_interval_ms: 2000, ..Default::default() })
}
fn flow_unrelated(id: &str, thr: f64) -> Arc<flow::Rule> {
    Arc::new(flow::Rule { id: id.into(), resource: U.into(), threshold: thr, ..Default::default() })
}
fn hs_subject(f: Family, id: &str, changed: bool) -> Arc<hotspot::Rule> {
    let mut r = hotspot::Rule { id: id.into(), resource: R.into(), ..Default::default() };
    match f {
        Family::HotspotQps => {
            r.metric_type = hotspot::MetricType::QPS;
            r.threshold = if changed { 5 } else { 2 };
            r.burst_count = 1;
            r.duration_in_sec = 1;
        }
        Family::HotspotThrottling => {
            r.metric_type = hotspot::MetricType::QPS;
            r.control_strategy = hotspot::ControlStrategy::Throttling;
            r.threshold = if changed { 10 } else { 4 };
            r.duration_in_sec = 1;
            r.max_queueing_time_ms = 600;
        }
        Family::HotspotConcurrency => {
            r.metric_type = hotspot::MetricType::Concurrency;
            r.threshold = if changed { 3 } else { 2 };
        }
        _ => unreachable!(),
    }
    Arc::new(r)
}
fn hs_lax(id: &str) -> Arc<hotspot::Rule> {
    Arc::new(hotspot::Rule { id: id.into(), resource: R.into(), metric_type: hotspot::MetricType::QPS, threshold: 1000, duration_in_sec: 2, ..Default::default() })
}
fn hs_unrelated(id: &str, thr: u64) -> Arc<hotspot::Rule> {
    Arc::new(hotspot::Rule { id: id.into(), resource: U.into(), metric_type: hotspot::MetricType::QPS, threshold: thr, duration_in_sec: 1, ..Default::default() })
}
fn cb_subject(f: Family, id: &str, changed: bool) -> Arc<cb::Rule> {
    let base = cb::Rule { id: id.into(), resource: R.into(), strategy: cb::BreakerStrategy::ErrorCount, retry_timeout_ms: 400, min_request_amount: 1, stat_interval_ms: 1000, stat_sliding_window_bucket_count: 2, threshold: if changed { 5.0 } else { 2.0 }, ..Default::default() };
    Arc::new(match f {
        Family::BreakerRatio => cb::Rule { strategy: cb::BreakerStrategy::ErrorRatio, min_request_amount: 2, threshold: if changed { 0.9 } else { 0.5 }, ..base },
        Family::BreakerSlow => cb::Rule { strategy: cb::BreakerStrategy::SlowRequestRatio, max_allowed_rt_ms: 100, min_request_amount: 2, threshold: if changed { 0.9 } else { 0.5 }, ..base },
        _ => base,
    })
}
fn cb_lax(id: &str) -> Arc<cb::Rule> {
    Arc::new(cb::Rule { id: id.into(), resource: R.into(), strategy: cb::BreakerStrategy::ErrorRatio, retry_timeout_ms: 400, min_request_amount: 100, stat_interval_ms: 2000, threshold: 1.0, ..Default::default() })
}
fn cb_unrelated(id: &str, thr: f64) -> Arc<cb::Rule> {
    Arc::new(cb::Rule { id: id.into(), resource: U.into(), strategy: cb::BreakerStrategy::ErrorCount, retry_timeout_ms: 400, min_request_amount: 1, stat_interval_ms: 1000, threshold: thr, ..Default::default() })
}

/// names of the one-parameter changes of the family's subject rule (see `subject_alt`)
pub fn alts(f: Family) -> Vec<&'static str> {
    match f {
        Family::FlowGlobal | Family::FlowPrivate => vec!["threshold", "stat_interval_ms", "control_strategy"],
        Family::FlowThrottling => vec!["threshold", "stat_interval_ms", "control_strategy", "max_queueing_time_ms"],
        Family::FlowWarmUp => vec!["threshold", "warm_up_period_sec", "warm_up_cold_factor", "calculate_strategy"],
        Family::HotspotQps => vec!["threshold", "metric_type", "duration_in_sec", "burst_count", "specific_items", "params_max_capacity", "control_strategy"],
        Family::HotspotThrottling => vec!["threshold", "metric_type", "duration_in_sec", "max_queueing_time_ms", "specific_items", "control_strategy"],
        Family::HotspotConcurrency => vec!["threshold", "metric_type", "specific_items", "params_max_capacity"],
        Family::BreakerErrors | Family::BreakerOpen | Family::BreakerHalfOpen | Family::BreakerRatio => vec!["threshold", "min_request_amount", "retry_timeout_ms", "stat_interval_ms", "stat_sliding_window_bucket_count", "strategy"],
        Family::BreakerSlow => vec!["threshold", "min_request_amount", "retry_timeout_ms", "stat_interval_ms", "stat_sliding_window_bucket_count", "strategy", "max_allowed_rt_ms"],
    }
}
enum AnySubject {
    Flow(Arc<flow::Rule>),
    Hs(Arc<hotspot::Rule>),
    Cb(Arc<cb::Rule>),
}
/// the family's subject rule (as `initial_load` uses it), with parameter `alt` changed if given
fn subject_alt(f: Family, alt: Option<usize>) -> AnySubject {
    let name = alt.map(|k| alts(f)[k]);
    match kind(f) {
        Kind::Flow => {
            let mut r = (*flow_subject(f, "s", false)).clone();
            match name {
                None => {}
                Some("threshold") => r.threshold *= 2.0,
                Some("stat_interval_ms") => r.stat_interval_ms = match f {
                    Family::FlowGlobal => 2000,
                    Family::FlowPrivate => 300,
                    _ => 5000,
                },
                Some("control_strategy") => {
                    if r.control_strategy == flow::ControlStrategy::Throttling {
                        r.control_strategy = flow::ControlStrategy::Reject;
                    } else {
                        r.control_strategy = flow::ControlStrategy::Throttling;
                        r.max_queueing_time_ms = 600;
                    }
                }
                Some("max_queueing_time_ms") => r.max_queueing_time_ms = 100,
                Some("warm_up_period_sec") => r.warm_up_period_sec = 6,
                Some("warm_up_cold_factor") => r.warm_up_cold_factor = 5,
                Some("calculate_strategy") => r.calculate_strategy = flow::CalculateStrategy::Direct,
                Some(x) => unreachable!("{}", x),
            }
            AnySubject::Flow(Arc::new(r))
        }
        Kind::Hotspot => {
            let mut r = (*hs_subject(f, "s", false)).clone();
            match name {
                None => {}
                Some("threshold") => r.threshold += 2,
                Some("metric_type") => {
                    r.metric_type = if r.metric_type == hotspot::MetricType::QPS { hotspot::MetricType::Concurrency } else { hotspot::MetricType::QPS };
                    if r.duration_in_sec == 0 {
                        r.duration_in_sec = 1;
                    }
                }
                Some("duration_in_sec") => r.duration_in_sec = 2,
                Some("burst_count") => r.burst_count = 3,
                Some("max_queueing_time_ms") => r.max_queueing_time_ms = 100,
                Some("specific_items") => {
                    r.specific_items.insert("A".into(), 1);
                }
                Some("params_max_capacity") => r.params_max_capacity = 3,
                Some("control_strategy") => {
                    if r.control_strategy == hotspot::ControlStrategy::Throttling {
                        r.control_strategy = hotspot::ControlStrategy::Reject;
                    } else {
                        r.control_strategy = hotspot::ControlStrategy::Throttling;
                        r.max_queueing_time_ms = 600;
                    }
                }
                Some(x) => unreachable!("{}", x),
            }
            AnySubject::Hs(Arc::new(r))
        }
        Kind::Breaker => {
            let mut r = (*cb_initial(f)[0]).clone();
            match name {
                None => {}
                Some("threshold") => {
                    if r.strategy == cb::BreakerStrategy::ErrorCount {
                        r.threshold += 1.0
                    } else {
                        r.threshold = 0.7
                    }
                }
                Some("max_allowed_rt_ms") => r.max_allowed_rt_ms = 400,
                Some("min_request_amount") => r.min_request_amount = 3,
                Some("retry_timeout_ms") => r.retry_timeout_ms = 100,
                Some("stat_interval_ms") => r.stat_interval_ms = 2000,
                Some("stat_sliding_window_bucket_count") => r.stat_sliding_window_bucket_count = 1,
                Some("strategy") => {
                    if r.strategy == cb::BreakerStrategy::ErrorCount {
                        r.strategy = cb::BreakerStrategy::ErrorRatio;
                        r.threshold = 0.5;
                    } else {
                        r.strategy = cb::BreakerStrategy::ErrorCount;
                        r.threshold = 2.0;
                    }
                }
                Some(x) => unreachable!("{}", x),
            }
            AnySubject::Cb(Arc::new(r))
        }
    }
}
/// load [subject, lax, unrelated] with the given subject, for all resources or for R only
fn load_with(s: &AnySubject, per_resource: bool) -> Result<(), String> {
    let r = R.to_string();
    match s {
        AnySubject::Flow(x) => {
            if per_resource {
                flow::load_rules_of_resource(&r, vec![x.clone(), flow_lax("lax")]).map_err(|e| e.to_string())?;
            } else {
                flow::load_rules(vec![x.clone(), flow_lax("lax"), flow_unrelated("u", 3.0)]);
            }
        }
        AnySubject::Hs(x) => {
            if per_resource {
                hotspot::load_rules_of_resource(&r, vec![x.clone(), hs_lax("lax")]).map_err(|e| e.to_string())?;
            } else {
                hotspot::load_rules(vec![x.clone(), hs_lax("lax"), hs_unrelated("u", 3)]);
            }
        }
        AnySubject::Cb(x) => {
            if per_resource {
                cb::load_rules_of_resource(&r, vec![x.clone(), cb_lax("lax")]).map_err(|e| e.to_string())?;
            } else {
                cb::load_rules(vec![x.clone(), cb_lax("lax"), cb_unrelated("u", 3.0)]);
            }
        }
    }
    Ok(())
}

#[derive(PartialEq)]
enum Kind {
    Flow,
    Hotspot,
    Breaker,
}
fn kind(f: Family) -> Kind {
    match f {
        Family::FlowGlobal | Family::FlowPrivate | Family::FlowThrottling | Family::FlowWarmUp => Kind::Flow,
        Family::HotspotQps | Family::HotspotThrottling | Family::HotspotConcurrency => Kind::Hotspot,
        _ => Kind::Breaker,
    }
}

/// the breaker families shorten the first threshold so that the history reaches the state
fn cb_initial(f: Family) -> Vec<Arc<cb::Rule>> {
    let mut s = (*cb_subject(f, "s", false)).clone();
    if matches!(f, Family::BreakerOpen | Family::BreakerHalfOpen) {
        s.threshold = 1.0;
    }
    vec![Arc::new(s), cb_lax("lax"), cb_unrelated("u", 3.0)]
}

fn initial_load(f: Family) {
    match kind(f) {
        Kind::Flow => {
            flow::load_rules(vec![flow_subject(f, "s", false), flow_lax("lax"), flow_unrelated("u", 3.0)]);
        }
        Kind::Hotspot => {
            hotspot::load_rules(vec![hs_subject(f, "s", false), hs_lax("lax"), hs_unrelated("u", 3)]);
        }
        Kind::Breaker => {
            cb::load_rules(cb_initial(f));
        }
    }
}

fn do_reload(f: Family, v: Variant) -> Result<(), String> {
    let changed = v == Variant::Changed;
    let (sid, lid) = if v == Variant::LoadAllNewIds { ("s-new", "lax-new") } else { ("s", "lax") };
    macro_rules! variants {
        ($m:ident, $subj:expr, $lax:expr, $unrel:expr) => {{
            let subj = $subj;
            let lax = $lax;
            match v {
                Variant::LoadAllSame | Variant::LoadAllNewIds | Variant::Changed => {
                    $m::load_rules(vec![subj, lax, $unrel("u", 3 as _)]);
                }
                Variant::LoadAllReordered => {
                    $m::load_rules(vec![$unrel("u", 3 as _), lax, subj]);
                }
                Variant::LoadAllUnrelatedAdded => {
                    $m::load_rules(vec![subj, lax, $unrel("u", 3 as _), $unrel("u2", 7 as _)]);
                }
                Variant::LoadAllUnrelatedChanged => {
                    $m::load_rules(vec![subj, lax, $unrel("u", 9 as _)]);
                }
                Variant::LoadAllUnrelatedRemoved => {
                    $m::load_rules(vec![subj, lax]);
                }
                Variant::LoadResSame => {
                    $m::load_rules_of_resource(&R.to_string(), vec![subj, lax]).map_err(|e| format!("load-for-resource-failed: {}", e))?;
                }
                Variant::FreshEquivalent | Variant::MidChange => unreachable!("handled by run_history_loaded / run_midchange"),
            }
        }};
    }
    match kind(f) {
        Kind::Flow => variants!(flow, flow_subject(f, sid, changed), flow_lax(lid), flow_unrelated),
        Kind::Hotspot => variants!(hotspot, hs_subject(f, sid, changed), hs_lax(lid), hs_unrelated),
        Kind::Breaker => {
            let mut s = (*cb_subject(f, sid, changed)).clone();
            if matches!(f, Family::BreakerOpen | Family::BreakerHalfOpen) && !changed {
                s.threshold = 1.0;
            }
            variants!(cb, Arc::new(s), cb_lax(lid), cb_unrelated)
        }
    }
    Ok(())
}

/// addresses of the controllers / breakers serving R, keyed by "subject"/"lax"
fn objects(f: Family) -> Vec<(bool, usize)> {
    let r = R.to_string();
    match kind(f) {
        Kind::Flow => flow::get_traffic_controller_list_for(&r).iter().map(|c| (c.rule().threshold < 999.0, Arc::as_ptr(c) as usize)).collect(),
        Kind::Hotspot => hotspot::get_traffic_controller_list_for(&r).iter().map(|c| (c.rule().threshold < 999, Arc::as_ptr(c) as *const () as usize)).collect(),
        Kind::Breaker => cb::get_breakers_of_resource(&r).iter().map(|b| (b.bound_rule().min_request_amount < 100, Arc::as_ptr(b) as *const () as usize)).collect(),
    }
}

type Log = Arc<Mutex<Vec<String>>>;
struct Rec(Log);
impl cb::StateChangeListener for Rec {
    fn on_transform_to_closed(&self, p: cb::State, r: Arc<cb::Rule>) {
        self.0.lock().unwrap().push(format!("{:?}->Closed@{}", p, r.resource));
    }
    fn on_transform_to_open(&self, p: cb::State, r: Arc<cb::Rule>, _s: Option<Arc<sentinel_core::base::Snapshot>>) {
        self.0.lock().unwrap().push(format!("{:?}->Open@{}", p, r.resource));
    }
    fn on_transform_to_half_open(&self, p: cb::State, r: Arc<cb::Rule>) {
        self.0.lock().unwrap().push(format!("{:?}->HalfOpen@{}", p, r.resource));
    }
}

/// Run the family's history, optionally with a reload before step `at`. Returns the observation
/// of every step, and (kept objects, total objects) of the identity check.
/// one step of a history on the live world; returns the observation
fn do_step(f: Family, st: &Step, held: &mut Vec<EntryStrongPtr>, log: &Log, builds: &mut u64) -> String {
    let args = || if kind(f) == Kind::Hotspot { Some(vec!["A".to_string()]) } else { None };
    clock::take_sleeps();
    let o = match st {
        Step::Arrive { gap } => {
            clock::advance_ms(*gap);
            let t0 = clock::get_ns();
            *builds += 1;
            match build_full(R, TrafficType::Outbound, 1, args(), None) {
                Built::Ok(e) => {
                    e.exit();
                    format!("admitted+{}ns", clock::get_ns() - t0)
                }
                Built::Blocked(b, _) => format!("rejected:{}", b.block_type),
            }
        }
        Step::Burst { gap, n } => {
            clock::advance_ms(*gap);
            let mut a = 0;
            for _ in 0..*n {
                *builds += 1;
                if let Built::Ok(e) = build(R, TrafficType::Outbound, 1) {
                    a += 1;
                    e.exit();
                }
            }
            format!("admitted {} of {}", a, n)
        }
        Step::Enter { gap } => {
            clock::advance_ms(*gap);
            *builds += 1;
            match build_full(R, TrafficType::Outbound, 1, args(), None) {
                Built::Ok(e) => {
                    held.push(e);
                    "admitted".to_string()
                }
                Built::Blocked(b, _) => format!("rejected:{}", b.block_type),
            }
        }
        Step::ExitOldest { gap, err } => {
            clock::advance_ms(*gap);
            if held.is_empty() {
                "nothing-to-exit".to_string()
            } else {
                let e = held.remove(0);
                if *err {
                    e.set_err(sentinel_core::Error::msg("boom"));
                }
                e.exit();
                "exited".to_string()
            }
        }
    };
    let states: Vec<String> = cb::get_breakers_of_resource(&R.to_string()).iter().filter(|b| b.bound_rule().min_request_amount < 100).map(|b| format!("{:?}", b.current_state())).collect();
    let l: Vec<String> = log.lock().unwrap().iter().filter(|e| e.ends_with(R)).cloned().collect();
    format!("{} {:?} {:?}", o, states, l)
}

pub fn run_history(f: Family, reload: Option<(Variant, usize)>) -> Result<(Vec<String>, u64), String> {
    run_history_loaded(f, reload, None)
}
/// `loads`: instead of the family's initial load, load the subject with the first alternative
/// (None = base rule) and then, if given, re-load it with the second, before any traffic
pub fn run_history_loaded(f: Family, reload: Option<(Variant, usize)>, loads: Option<(Option<usize>, Option<(Option<usize>, bool)>)>) -> Result<(Vec<String>, u64), String> {
    reset_world(T0_MS + 250);
    let log: Log = Arc::new(Mutex::new(vec![]));
    cb::register_state_change_listeners(vec![Arc::new(Rec(log.clone()))]);
    match loads {
        None => initial_load(f),
        Some((first, then)) => {
            load_with(&subject_alt(f, first), false)?;
            if let Some((second, per_resource)) = then {
                load_with(&subject_alt(f, second), per_resource)?;
            }
        }
    }
    let mut held: Vec<EntryStrongPtr> = vec![];
    let mut obs = vec![];
    let mut builds = 0u64;
    for (i, st) in history(f).iter().enumerate() {
        if let Some((v, at)) = reload {
            if at == i {
                let before = objects(f);
                do_reload(f, v)?;
                let after = objects(f);
                for (is_subject, p) in &before {
                    let must_keep = !(v == Variant::Changed && *is_subject);
                    if must_keep && !after.iter().any(|(_, q)| q == p) {
                        return Err(format!("object-replaced: the {} of the {} rule was rebuilt by reload {:?} although the rule did not change", if kind(f) == Kind::Breaker { "breaker" } else { "controller" }, if *is_subject { "subject" } else { "second" }, v));
                    }
                }
                if after.len() != before.len() {
                    return Err(format!("object-count: {} controllers before the reload, {} after", before.len(), after.len()));
                }
            }
        }
        obs.push(do_step(f, st, &mut held, &log, &mut builds));
    }
    for e in held {
        e.exit();
    }
    Ok((obs, builds))
}

/// expected observations after a parameter change, where they differ from the reload-free run:
/// checked by predicates tied to the new parameter
fn check_changed(f: Family, at: usize, base: &[String], got: &[String]) -> Result<(), String> {
    // before the reload nothing may differ
    for i in 0..at {
        if base[i] != got[i] {
            return Err(format!("changed-before-reload: step {}: {:?} vs {:?}", i, base[i], got[i]));
        }
    }
    let adm = |s: &String| s.starts_with("admitted");
    match f {
        // threshold raised 2 -> 4 over the carried-over window: every request the old rule admitted
        // is still admitted, and the first request the old rule rejected after the reload is now
        // admitted (the window then holds at most 3 tokens)
        // hotspot QPS: the bucket's remaining tokens are carried over, the new threshold governs
        // the cap and every refill from the reload on: compare with the reference bucket of C06
        Family::HotspotQps => {
            let mut bk = super::c06::Bucket::default();
            let mut t = T0_MS + 250;
            for (i, st) in history(f).iter().enumerate() {
                if let Step::Arrive { gap } = st {
                    t += gap;
                }
                let q = if i >= at { 5 } else { 2 };
                let want = super::c06::bucket_step(&mut bk, q, 1, 1000, t, 1);
                if adm(&got[i]) != want {
                    return Err(format!("changed-not-applied: step {} is {:?}; a bucket with the threshold raised to 5 before step {} (tokens carried over) {} it", i, got[i], at, if want { "admits" } else { "rejects" }));
                }
            }
            Ok(())
        }
        Family::FlowGlobal | Family::FlowPrivate | Family::HotspotConcurrency => {
            for i in at..base.len() {
                if adm(&base[i]) && !adm(&got[i]) {
                    return Err(format!("changed-not-applied: step {} admitted under the old limit is rejected after raising the limit: {:?}", i, got[i]));
                }
            }
            if let Some(i) = (at..base.len()).find(|i| !adm(&base[*i]) && base[*i].starts_with("rejected")) {
                if !adm(&got[i]) {
                    return Err(format!("changed-not-applied: the first request rejected by the old limit after the reload (step {}) is still rejected under the raised limit: {:?}", i, got[i]));
                }
            }
            Ok(())
        }
        // breaker threshold raised 2 -> 5: the breaker must not open on the second/third error any more
        Family::BreakerErrors => {
            if at <= 3 {
                for (i, g) in got.iter().enumerate().skip(at) {
                    if g.contains("->Open") || g.contains("rejected") {
                        return Err(format!("changed-not-applied: with the error threshold raised to 5 before the second error the breaker still opened / rejected at step {}: {:?}", i, g));
                    }
                }
            }
            Ok(())
        }
        _ => Ok(()),
    }
}

pub fn configs(thorough: bool) -> Vec<Cfg> {
    let fams = [Family::FlowGlobal, Family::FlowPrivate, Family::FlowThrottling, Family::FlowWarmUp, Family::HotspotQps, Family::HotspotThrottling, Family::HotspotConcurrency, Family::BreakerErrors, Family::BreakerOpen, Family::BreakerHalfOpen, Family::BreakerRatio, Family::BreakerSlow];
    let vars = [Variant::LoadAllSame, Variant::LoadAllNewIds, Variant::LoadAllReordered, Variant::LoadAllUnrelatedAdded, Variant::LoadAllUnrelatedChanged, Variant::LoadAllUnrelatedRemoved, Variant::LoadResSame, Variant::Changed];
    let mut v = vec![];
    for f in fams {
        let n = history(f).len();
        for (k, var) in vars.iter().enumerate() {
            if *var == Variant::Changed && !matches!(f, Family::FlowGlobal | Family::FlowPrivate | Family::HotspotConcurrency | Family::HotspotQps | Family::BreakerErrors) {
                continue;
            }
            for at in 0..=n {
                if !thorough && (at + k) % 2 == 1 && at != n / 2 {
                    continue;
                }
                v.push(Cfg { family: f, variant: *var, at, alt: 0, per_resource: false, reverse: false });
            }
        }
        for alt in 0..alts(f).len() {
            for per_resource in [false, true] {
                for reverse in [false, true] {
                    v.push(Cfg { family: f, variant: Variant::FreshEquivalent, at: 0, alt, per_resource, reverse });
                }
            }
        }
        if kind(f) != Kind::Breaker {
            for alt in 0..alts(f).len() {
                for at in 0..=n {
                    for per_resource in [false, true] {
                        if !thorough && (at + alt) % 2 != per_resource as usize {
                            continue;
                        }
                        v.push(Cfg { family: f, variant: Variant::MidChange, at, alt, per_resource, reverse: false });
                    }
                }
            }
        }
    }
    v
}

// a multiple of every window and bucket length in use (lcm of 700, 300, 5000, 6000 ms = 210 000)
const QUIET_MS: u64 = 4_200_000;

fn run_midchange(c: &Cfg) -> Result<(u64, bool), String> {
    let f = c.family;
    let (fresh, b1) = run_history_loaded(f, None, Some((Some(c.alt), None)))?;
    reset_world(T0_MS + 250);
    let log: Log = Arc::new(Mutex::new(vec![]));
    load_with(&subject_alt(f, None), false)?;
    let steps = history(f);
    let mut held: Vec<EntryStrongPtr> = vec![];
    let mut builds = 0u64;
    for (i, st) in steps.iter().enumerate() {
        if i == c.at {
            load_with(&subject_alt(f, Some(c.alt)), c.per_resource)?;
        }
        do_step(f, st, &mut held, &log, &mut builds);
    }
    if c.at >= steps.len() {
        load_with(&subject_alt(f, Some(c.alt)), c.per_resource)?;
    }
    for e in held.drain(..) {
        e.exit();
    }
    if clock::get_ms() >= T0_MS + 250 + QUIET_MS {
        return Err("MACHINERY history longer than the quiet period".into());
    }
    clock::set_ms(T0_MS + 250 + QUIET_MS);
    let mut tail = vec![];
    for st in &steps {
        tail.push(do_step(f, st, &mut held, &log, &mut builds));
    }
    for e in held.drain(..) {
        e.exit();
    }
    for i in 0..fresh.len() {
        if fresh[i] != tail[i] {
            return Err(format!(
                "old-state-lingers: {:?} history, parameter {} changed by a re-load ({}) before step {}, history finished, everything exited, {} s of silence: step {} of the same history then observes {:?}; a fresh world with the changed rule observes {:?}",
                f,
                alts(f)[c.alt],
                if c.per_resource { "for the resource" } else { "for all resources" },
                c.at,
                QUIET_MS / 1000,
                i,
                tail[i],
                fresh[i]
            ));
        }
    }
    let distinct: std::collections::BTreeSet<&str> = fresh.iter().map(|s| s.split(' ').next().unwrap()).collect();
    Ok((b1 + builds, distinct.len() >= 2))
}

fn run_cfg(c: &Cfg) -> Result<(u64, bool), String> {
    if c.variant == Variant::MidChange {
        return run_midchange(c);
    }
    if c.variant == Variant::FreshEquivalent {
        let (first, last) = if c.reverse { (Some(c.alt), None) } else { (None, Some(c.alt)) };
        let (fresh, b1) = run_history_loaded(c.family, None, Some((last, None)))?;
        let (two_step, b2) = run_history_loaded(c.family, None, Some((first, Some((last, c.per_resource)))))?;
        for i in 0..fresh.len() {
            if fresh[i] != two_step[i] {
                return Err(format!(
                    "changed-not-applied: {:?} history, parameter {} {} and re-loaded {} before any traffic: step {} observes {:?}; with the final rule loaded from the start it is {:?}",
                    c.family,
                    alts(c.family)[c.alt],
                    if c.reverse { "changed at first" } else { "changed by the re-load" },
                    if c.per_resource { "for the resource" } else { "for all resources" },
                    i,
                    two_step[i],
                    fresh[i]
                ));
            }
        }
        let distinct: std::collections::BTreeSet<&str> = fresh.iter().map(|s| s.split(' ').next().unwrap()).collect();
        return Ok((b1 + b2, distinct.len() >= 2));
    }
    let (base, b1) = run_history(c.family, None)?;
    let at = c.at.min(base.len());
    let (got, b2) = run_history(c.family, Some((c.variant, at)))?;
    if c.variant == Variant::Changed {
        check_changed(c.family, at, &base, &got)?;
    } else {
        for i in 0..base.len() {
            if base[i] != got[i] {
                return Err(format!("state-lost: reload {:?} before step {} of the {:?} history: step {} observes {:?}, the reload-free run {:?}", c.variant, at, c.family, i, got[i], base[i]));
            }
        }
    }
    // the history is only meaningful if its later observations depend on state
    let distinct: std::collections::BTreeSet<&str> = base.iter().map(|s| s.split(' ').next().unwrap()).collect();
    Ok((b1 + b2, distinct.len() >= 2))
}

pub fn run(o: &Opts, stats: &mut Stats) -> Option<usize> {
    if let Some(path) = &o.replay {
        let v: serde_json::Value = serde_json::from_str(&std::fs::read_to_string(path).unwrap()).unwrap();
        let cfg: Cfg = serde_json::from_value(v["config"].clone()).unwrap();
        let (a, b) = (run_cfg(&cfg), run_cfg(&cfg));
        if a.is_err() != b.is_err() {
            eprintln!("MACHINERY: replay not deterministic");
            std::process::exit(2);
        }
        if let Ok((base, _)) = run_history(cfg.family, None) {
            for (i, s) in base.iter().enumerate() {
                println!("  reload-free step {:2}: {}", i, s);
            }
        }
        match a {
            Err(why) => {
                println!("REPLAY-RESULT: violation: {}", why);
                stats.violations.push(Violation { sig: format!("{:?}:{}", cfg.family, why.split(':').next().unwrap()), config: v["config"].clone(), trace: json!({}), why });
            }
            Ok(_) => println!("REPLAY-RESULT: no violation"),
        }
        return None;
    }
    for (i, c) in configs(o.thorough).iter().enumerate() {
        if !o.mine(i) {
            continue;
        }
        set_now_cfg(serde_json::to_string(c).unwrap());
        stats.configs += 1;
        stats.executions += 2;
        stats.states.insert(i as u64);
        let r = std::panic::catch_unwind(|| run_cfg(c));
        match r {
            Ok(Ok((builds, nt))) => {
                stats.transitions += builds;
                if nt {
                    stats.nontrivial += 1;
                }
                stats.outcome(&format!("{:?}/{:?}", c.family, c.variant));
                if stats.samples.len() < 3 {
                    stats.sample(json!({"config": c, "history": format!("{:?}", history(c.family))}));
                }
            }
            Ok(Err(why)) => {
                if stats.violations.len() < 25 {
                    stats.violations.push(Violation { sig: format!("{:?}:{}", c.family, why.split(':').next().unwrap()), config: serde_json::to_value(c).unwrap(), trace: json!({}), why });
                }
            }
            Err(e) => {
                stats.violations.push(Violation { sig: format!("{:?}:panic", c.family), config: serde_json::to_value(c).unwrap(), trace: json!({}), why: format!("panic@{}: {}", last_panic_loc(), panic_msg(e)) });
                return Some(i + 1);
            }
        }
    }
    None
}
