//! C06 — hotspot QPS limiting is a per-parameter token bucket with no cross-talk.
use super::{run_configs, Pass};
use crate::common::*;
use crate::explore::Subject;
use crate::sut::*;
use sentinel_core::base::{EntryStrongPtr, ParamsMap, TrafficType};
use sentinel_core::hotspot;
use serde::{Deserialize, Serialize};
use std::collections::{BTreeMap, HashMap};
use std::sync::Arc;

#[derive(Serialize, Deserialize, Clone, Debug)]
pub struct Cfg {
    pub q: u64,
    pub b: u64,
    pub d: u64,
    pub overrides: Vec<(String, u64)>,
    pub keyed: bool,
    pub phase: u64,
    /// positional rules address their argument from the END of the argument list: the first rule
    /// with -(number of arguments), i.e. the first argument, the companion with -1
    #[serde(default)]
    pub neg_index: bool,
    /// a second rule on the same resource (parameter 1 / key "k2", threshold 1e6: it never rejects)
    /// whose parameter values are the same strings as the first rule's values
    #[serde(default)]
    pub companion: bool,
    /// 0: rules loaded once. 1: a copy with every threshold + 1 is loaded first, 2: a copy with the
    /// metric type switched to Concurrency is loaded first, 3: a copy with params_max_capacity 2
    /// is loaded first; no traffic in between, so the decisions must be those of a single load
    #[serde(default)]
    pub retuned: u8,
    /// a fixed history instead of the explored alphabet: the rule gets params_max_capacity = C, C
    /// distinct values ask for one token each at the same instant (q = 1, b = 0: every bucket is
    /// then empty), and the first value asks again: it must be rejected, because the number of
    /// distinct values is within the rule's capacity and no bucket may have been dropped
    #[serde(default)]
    pub script_capacity: Option<usize>,
    /// keyed, with the companion rule: BOTH rules limit (same q, b, d) and every request carries
    /// only ONE of the two parameters (values A, B belong to the first rule's key, C, D to the
    /// second's): a request that lacks one rule's parameter is still judged by the other rule
    #[serde(default)]
    pub solo: bool,
}

#[derive(Clone, Debug)]
pub enum Op {
    Arrive { value: &'static str, batch: u32, gap: u64 },
    /// scripted history: the n-th distinct value, one token, no time passing
    ArriveN(usize),
}

const RES: &str = "c06-res";

/// Reference token bucket of one parameter value (lazy refill once more than `d` has elapsed
/// since the last refill, capped at q+b).
#[derive(Clone, Debug, Default)]
pub struct Bucket {
    pub tokens: u64,
    pub last_fill: u64,
    pub started: bool,
}
pub fn bucket_step(bk: &mut Bucket, q: u64, b: u64, d_ms: u64, t: u64, n: u64) -> bool {
    if q == 0 {
        return false;
    }
    let max = q + b;
    if n > max {
        return false;
    }
    if !bk.started {
        bk.started = true;
        bk.tokens = max - n;
        bk.last_fill = t;
        return true;
    }
    let passed = t - bk.last_fill;
    if passed > d_ms {
        let add = passed * q / d_ms;
        let have = if add + bk.tokens > max { max } else { add + bk.tokens };
        if have < n {
            return false;
        }
        bk.tokens = have - n;
        bk.last_fill = t;
        true
    } else if bk.tokens >= n {
        bk.tokens -= n;
        true
    } else {
        false
    }
}

pub struct C06 {
    cfg: Cfg,
    gaps: Vec<u64>,
    buckets: BTreeMap<String, Bucket>,
    /// (time, value, batch, admitted)
    hist: Vec<(u64, String, u32, bool)>,
    keep: Vec<EntryStrongPtr>,
    refills: u64,
    step_no: usize,
}

fn other(v: &str) -> &'static str {
    match v {
        "A" => "B",
        "B" => "C",
        "C" => "D",
        _ => "A",
    }
}
fn companion_of(cfg: &Cfg, threshold: u64) -> Arc<hotspot::Rule> {
    Arc::new(hotspot::Rule {
        id: "h1".into(),
        resource: RES.into(),
        metric_type: hotspot::MetricType::QPS,
        control_strategy: hotspot::ControlStrategy::Reject,
        // (a positive index and a key are mutually exclusive: a keyed companion has index 0)
        param_index: if cfg.keyed { 0 } else if cfg.neg_index { -1 } else { 1 },
        param_key: if cfg.keyed { "k2".into() } else { String::new() },
        threshold,
        burst_count: cfg.b,
        duration_in_sec: cfg.d,
        ..Default::default()
    })
}
fn rule_set(cfg: &Cfg, bump: u64, concurrency: bool) -> Vec<Arc<hotspot::Rule>> {
    let mut v = vec![rule_of(cfg, cfg.q + bump, &cfg.overrides)];
    if cfg.companion {
        v.push(companion_of(cfg, if cfg.solo { cfg.q + bump } else { 1_000_000 + bump }));
    }
    if concurrency {
        v = v
            .into_iter()
            .map(|r| {
                let mut r = (*r).clone();
                r.metric_type = hotspot::MetricType::Concurrency;
                Arc::new(r)
            })
            .collect();
    }
    v
}

fn rule_of(cfg: &Cfg, q: u64, overrides: &[(String, u64)]) -> Arc<hotspot::Rule> {
    Arc::new(hotspot::Rule {
        id: "h0".into(),
        resource: RES.into(),
        metric_type: hotspot::MetricType::QPS,
        control_strategy: hotspot::ControlStrategy::Reject,
        param_index: if cfg.neg_index && !cfg.keyed { if cfg.companion { -2 } else { -1 } } else { 0 },
        param_key: if cfg.keyed { "k".into() } else { String::new() },
        threshold: q,
        burst_count: cfg.b,
        duration_in_sec: cfg.d,
        specific_items: overrides.iter().cloned().collect(),
        params_max_capacity: cfg.script_capacity.unwrap_or(0),
        ..Default::default()
    })
}

impl C06 {
    pub fn new(cfg: &Cfg) -> Self {
        let d = cfg.d * 1000;
        let mut gaps = vec![0, 1, d / 2, d - 1, d, d + 1, 2 * d + 1, 5 * d];
        gaps.sort();
        gaps.dedup();
        C06 { cfg: cfg.clone(), gaps, buckets: BTreeMap::new(), hist: vec![], keep: vec![], refills: 0, step_no: 0 }
    }
    fn q_of(&self, v: &str) -> u64 {
        self.cfg.overrides.iter().find(|(k, _)| k == v).map(|(_, q)| *q).unwrap_or(self.cfg.q)
    }
}

impl Subject for C06 {
    type Op = Op;
    fn reset(&mut self) {
        for e in self.keep.drain(..) {
            e.exit();
        }
        reset_world(T0_MS + self.cfg.phase);
        match self.cfg.retuned {
            1 => {
                hotspot::load_rules(rule_set(&self.cfg, 1, false));
            }
            2 => {
                hotspot::load_rules(rule_set(&self.cfg, 0, true));
            }
            3 => {
                let small: Vec<Arc<hotspot::Rule>> = rule_set(&self.cfg, 0, false)
                    .into_iter()
                    .map(|r| {
                        let mut r = (*r).clone();
                        r.params_max_capacity = 2;
                        Arc::new(r)
                    })
                    .collect();
                hotspot::load_rules(small);
            }
            _ => {}
        }
        hotspot::load_rules(rule_set(&self.cfg, 0, false));
        // vacuity guard: every rule of the configuration must really be in force
        let want = if self.cfg.companion { 2 } else { 1 };
        let got = hotspot::get_rules_of_resource(&RES.to_string()).len();
        if got != want {
            eprintln!("MACHINERY: C06 configuration {:?}: {} of {} harness rules are in force (one was refused as invalid?)", self.cfg, got, want);
            std::process::exit(2);
        }
        self.buckets.clear();
        self.hist.clear();
        self.refills = 0;
        self.step_no = 0;
    }
    fn enabled(&self) -> Vec<Op> {
        if let Some(c) = self.cfg.script_capacity {
            return if self.step_no < c {
                vec![Op::ArriveN(self.step_no)]
            } else if self.step_no == c {
                vec![Op::ArriveN(0)]
            } else {
                vec![]
            };
        }
        let max = self.cfg.q + self.cfg.b;
        let mut v = vec![];
        for g in &self.gaps {
            v.push(Op::Arrive { value: "A", batch: 1, gap: *g });
        }
        for val in ["B", "C", "D"] {
            v.push(Op::Arrive { value: val, batch: 1, gap: 0 });
            v.push(Op::Arrive { value: val, batch: 1, gap: self.cfg.d * 1000 + 1 });
        }
        for b in [2u32, max.max(1) as u32, max as u32 + 1] {
            v.push(Op::Arrive { value: "A", batch: b, gap: 0 });
            v.push(Op::Arrive { value: "B", batch: b, gap: 1 });
        }
        v
    }
    fn step(&mut self, op: &Op) -> Result<(), String> {
        self.step_no += 1;
        let owned;
        let (value, batch, gap): (&str, &u32, &u64) = match op {
            Op::Arrive { value, batch, gap } => (*value, batch, gap),
            Op::ArriveN(n) => {
                owned = format!("v{}", n);
                (owned.as_str(), &1, &0)
            }
        };
        let value = &value;
        advance_ms(*gap);
        let t = now_ms();
        let q = self.q_of(value);
        let bk = self.buckets.entry(value.to_string()).or_default();
        let before = bk.clone();
        let expect = bucket_step(bk, q, self.cfg.b, self.cfg.d * 1000, t, *batch as u64);
        if expect && before.started && t - before.last_fill > self.cfg.d * 1000 {
            self.refills += 1;
        }
        let second_rule = self.cfg.solo && matches!(*value, "C" | "D");
        let (args, att) = if self.cfg.solo {
            let mut m: ParamsMap = HashMap::new();
            m.insert(if second_rule { "k2" } else { "k" }.into(), value.to_string());
            (None, Some(m))
        } else if self.cfg.keyed {
            let mut m: ParamsMap = HashMap::new();
            m.insert("k".into(), value.to_string());
            if self.cfg.companion {
                m.insert("k2".into(), other(value).to_string());
            }
            (None, Some(m))
        } else if self.cfg.companion {
            (Some(vec![value.to_string(), other(value).to_string()]), None)
        } else {
            (Some(vec![value.to_string()]), None)
        };
        let r = build_full(RES, TrafficType::Outbound, *batch, args, att);
        let got = r.is_ok();
        match r {
            Built::Ok(e) => self.keep.push(e),
            Built::Blocked(b, _) => {
                if b.block_type != "HotSpotParamFlow" || b.rule_id.as_deref() != Some(if second_rule { "h1" } else { "h0" }) {
                    return Err(format!("block-report: {} naming {:?}", b.block_type, b.rule_id));
                }
            }
        }
        self.hist.push((t, value.to_string(), *batch, got));
        if got != expect {
            return Err(format!(
                "{}: value {:?} batch {} at t=+{}: bucket held {} tokens (q {}, burst {}, last refill +{})",
                if got { "admitted-without-tokens" } else { "rejected-with-tokens" },
                value,
                batch,
                t - T0_MS,
                before.tokens,
                q,
                self.cfg.b,
                before.last_fill.saturating_sub(T0_MS)
            ));
        }
        Ok(())
    }
    fn finish(&mut self) -> Result<(), String> {
        // (1) bound from the statement, from the history only
        let d = self.cfg.d * 1000;
        let values: Vec<String> = self.buckets.keys().cloned().collect();
        for v in &values {
            let q = self.q_of(v);
            let mine: Vec<&(u64, String, u32, bool)> = self.hist.iter().filter(|h| &h.1 == v).collect();
            let first = mine[0].0;
            let mut admitted = 0u64;
            for h in &mine {
                if h.3 {
                    admitted += h.2 as u64;
                }
                let bound = (q + self.cfg.b) as f64 + q as f64 * (h.0 - first) as f64 / d as f64;
                if admitted as f64 > bound {
                    return Err(format!("bound-exceeded: value {:?}: {} tokens admitted by t=+{} > q+b+q*(t-first)/d = {}", v, admitted, h.0 - T0_MS, bound));
                }
            }
        }
        if self.cfg.script_capacity.is_some() || self.cfg.solo {
            return Ok(());
        }
        // (3)+(4) no cross-talk, overrides replace q for that value only: the decisions for value v
        // equal those of the history projected on v under a rule without overrides and q := q_v,
        // asked through Controller::perform_checking
        let t_end = now_ms();
        for v in &values {
            let q = self.q_of(v);
            sentinel_verif_rt::clock::set_ms(T0_MS + self.cfg.phase);
            hotspot::load_rules(vec![]);
            hotspot::load_rules(vec![rule_of(&self.cfg, q, &[])]);
            let tcs = hotspot::get_traffic_controller_list_for(&RES.to_string());
            if tcs.len() != 1 {
                return Err(format!("controller-list: {} controllers for one rule", tcs.len()));
            }
            for h in self.hist.iter().filter(|h| &h.1 == v) {
                sentinel_verif_rt::clock::set_ms(h.0);
                let r = tcs[0].perform_checking(v.clone(), h.2);
                if r.is_pass() != h.3 {
                    return Err(format!("cross-talk: value {:?} batch {} at t=+{} was {} in the mixed history but is {} when asked alone with threshold {}", v, h.2, h.0 - T0_MS, if h.3 { "admitted" } else { "rejected" }, if r.is_pass() { "admitted" } else { "rejected" }, q));
                }
            }
        }
        sentinel_verif_rt::clock::set_ms(t_end);
        Ok(())
    }
    fn nontrivial(&self) -> bool {
        self.refills >= 1 && self.hist.iter().any(|h| h.3) && self.hist.iter().any(|h| !h.3)
    }
    fn outcome(&self) -> String {
        if self.cfg.script_capacity.is_some() {
            return format!("scripted:{}A{}R", self.hist.iter().filter(|h| h.3).count(), self.hist.iter().filter(|h| !h.3).count());
        }
        self.hist.iter().map(|h| if h.3 { 'A' } else { 'R' }).collect()
    }
    fn counters(&self) -> Vec<(&'static str, u64)> {
        vec![("refills", self.refills)]
    }
}

pub fn configs(thorough: bool) -> Vec<Cfg> {
    let mut v = vec![];
    let mut k = 0u64;
    for q in 0..=3u64 {
        for b in 0..=2u64 {
            for d in 1..=3u64 {
                for overrides in [vec![], vec![("A".to_string(), 0u64)], vec![("A".to_string(), 5u64)], vec![("B".to_string(), 1u64), ("A".to_string(), 2)]] {
                    for keyed in [false, true] {
                        k += 1;
                        if !thorough && k % 5 != 0 {
                            continue;
                        }
                        let base = Cfg { q, b, d, overrides: overrides.clone(), keyed, phase: [0, 1, 499, 999][(k % 4) as usize], neg_index: !keyed && (if thorough { (k / 2) % 2 == 1 } else { (k / 10) % 2 == 1 }), companion: false, retuned: 0, script_capacity: None, solo: false };
                        v.push(base.clone());
                        // variants: a companion rule sharing the value strings, and two-step loads
                        // the companion + two-step variant (0) is given to every second configuration
                        // (a table of odd length: k / 5 and the keyed flag alternate together, an even length would alias)
                        let variant = if thorough { Some([0, 1, 0, 2, 3][(k % 5) as usize]) } else { Some([0, 1, 0, 2, 3][((k / 5) % 5) as usize]) };
                        match variant {
                            Some(3) => v.push(Cfg { companion: false, retuned: 3, ..base.clone() }),
                            Some(0) => v.push(Cfg { companion: true, retuned: 1, ..base.clone() }),
                            Some(1) => v.push(Cfg { companion: false, retuned: 2, ..base.clone() }),
                            Some(_) => v.push(Cfg { companion: true, retuned: 0, ..base.clone() }),
                            None => {}
                        }
                    }
                }
            }
        }
    }
    // both rules limiting, every request carrying one parameter only
    for (q, b, d) in [(1u64, 0u64, 1u64), (2, 1, 2), (1, 1, 3)] {
        v.push(Cfg { q, b, d, overrides: vec![], keyed: true, phase: 0, neg_index: false, companion: true, retuned: 0, script_capacity: None, solo: true });
    }
    // scripted capacity histories: small, just above the default ceiling of 20 000, and larger
    for c in [3usize, 50, 20_001, 25_000] {
        for keyed in [false, true] {
            if keyed && c > 50 {
                continue;
            }
            v.push(Cfg { q: 1, b: 0, d: 3, overrides: vec![], keyed, phase: 0, neg_index: !keyed && c == 50, companion: false, retuned: 0, script_capacity: Some(c), solo: false });
        }
    }
    v
}

pub fn run(o: &Opts, stats: &mut Stats) -> Option<usize> {
    let cfgs = configs(o.thorough);
    let thorough = o.thorough;
    run_configs(o, stats, &cfgs, |c, _| C06::new(c), &move |c: &Cfg| {
        let variant = c.companion || c.retuned != 0;
        if let Some(cap) = c.script_capacity {
            return vec![Pass { depth: cap + 2, max_dev: 0 }];
        }
        if thorough {
            vec![Pass { depth: if variant { 6 } else { 7 }, max_dev: 3 }]
        } else {
            vec![Pass { depth: 5, max_dev: 2 }]
        }
    })
}
