//! C15 — concurrent rule updates and entries never deadlock, panic or poison a manager.
use crate::common::*;
use crate::sched::*;
use sentinel_core::base::TrafficType;
use sentinel_core::{circuitbreaker as cb, flow, hotspot, isolation, system, EntryBuilder};
use sentinel_verif_rt::clock;
use std::sync::Arc;

#[derive(Clone, Copy, Debug, PartialEq)]
pub enum Fam {
    Flow,
    Cb,
    Hotspot,
    Iso,
    Sys,
}
#[derive(Clone, Copy, Debug, PartialEq)]
pub enum Op {
    LoadSame,
    LoadOther,
    LoadRes,
    /// an empty list through the per-resource loader (the documented way to clear one resource)
    LoadResEmpty,
    Append,
    ClearAll,
    ClearRes,
    Get,
    Entry,
}

const R1: &str = "c15-r1";
const R2: &str = "c15-r2";

fn flow_rule(k: usize) -> Arc<flow::Rule> {
    let (res, thr) = [(R1, 10.0), (R1, 20.0), (R2, 30.0)][k];
    Arc::new(flow::Rule { id: format!("f{}", k), resource: res.into(), threshold: thr, stat_interval_ms: 1000, ..Default::default() })
}
fn cb_rule(k: usize) -> Arc<cb::Rule> {
    let (res, thr) = [(R1, 10.0), (R1, 20.0), (R2, 30.0)][k];
    Arc::new(cb::Rule { id: format!("c{}", k), resource: res.into(), strategy: cb::BreakerStrategy::ErrorCount, retry_timeout_ms: 1000, min_request_amount: 1, stat_interval_ms: 1000, threshold: thr, ..Default::default() })
}
fn hs_rule(k: usize) -> Arc<hotspot::Rule> {
    let (res, thr) = [(R1, 10), (R1, 20), (R2, 30)][k];
    Arc::new(hotspot::Rule { id: format!("h{}", k), resource: res.into(), metric_type: hotspot::MetricType::QPS, threshold: thr, duration_in_sec: 1, params_max_capacity: 10, ..Default::default() })
}
fn iso_rule(k: usize) -> Arc<isolation::Rule> {
    let (res, thr) = [(R1, 10), (R1, 20), (R2, 30)][k];
    Arc::new(isolation::Rule { id: format!("i{}", k), resource: res.into(), threshold: thr, ..Default::default() })
}
fn sys_rule(k: usize) -> Arc<system::Rule> {
    let (mt, thr) = [(system::MetricType::InboundQPS, 1000.0), (system::MetricType::Concurrency, 1000.0), (system::MetricType::AvgRT, 100000.0)][k];
    Arc::new(system::Rule { id: format!("s{}", k), metric_type: mt, threshold: thr, ..Default::default() })
}

pub fn entry_once(res: &str) {
    match EntryBuilder::new(res.to_string()).with_traffic_type(TrafficType::Inbound).with_args(Some(vec!["v".into()])).build() {
        Ok(e) => e.exit(),
        Err(_) => {}
    }
}

fn do_op(f: Fam, op: Op) {
    let r1 = R1.to_string();
    macro_rules! fam {
        ($m:ident, $rule:ident) => {
            match op {
                Op::LoadSame => {
                    $m::load_rules(vec![$rule(0)]);
                }
                Op::LoadOther => {
                    $m::load_rules(vec![$rule(1), $rule(2)]);
                }
                Op::LoadRes => {
                    let _ = $m::load_rules_of_resource(&r1, vec![$rule(1)]);
                }
                Op::LoadResEmpty => {
                    let _ = $m::load_rules_of_resource(&r1, vec![]);
                }
                Op::Append => {
                    $m::append_rule($rule(1));
                }
                Op::ClearAll => $m::clear_rules(),
                Op::ClearRes => $m::clear_rules_of_resource(&r1),
                Op::Get => {
                    let _ = $m::get_rules();
                    let _ = $m::get_rules_of_resource(&r1);
                }
                Op::Entry => entry_once(R1),
            }
        };
    }
    match f {
        Fam::Flow => fam!(flow, flow_rule),
        Fam::Cb => fam!(cb, cb_rule),
        Fam::Hotspot => fam!(hotspot, hs_rule),
        Fam::Iso => fam!(isolation, iso_rule),
        Fam::Sys => match op {
            Op::LoadSame => system::load_rules(vec![sys_rule(0)]),
            Op::LoadOther | Op::LoadRes => system::load_rules(vec![sys_rule(1), sys_rule(2)]),
            Op::Append => {
                system::append_rule(sys_rule(1));
            }
            Op::ClearAll | Op::ClearRes | Op::LoadResEmpty => system::clear_rules(),
            Op::Get => {
                let _ = system::get_rules();
            }
            Op::Entry => entry_once(R1),
        },
    }
}

fn init(f: Fam) {
    match f {
        Fam::Flow => {
            flow::load_rules(vec![flow_rule(0)]);
        }
        Fam::Cb => {
            cb::load_rules(vec![cb_rule(0)]);
        }
        Fam::Hotspot => {
            hotspot::load_rules(vec![hs_rule(0)]);
        }
        Fam::Iso => isolation::load_rules(vec![iso_rule(0)]),
        Fam::Sys => system::load_rules(vec![sys_rule(0)]),
    }
}

/// After all threads returned: every manager still answers queries and accepts updates.
pub fn health_probe() {
    for f in [Fam::Flow, Fam::Cb, Fam::Hotspot, Fam::Iso, Fam::Sys] {
        for op in [Op::Get, Op::LoadOther, Op::Append, Op::Get, Op::LoadRes, Op::ClearRes, Op::LoadSame, Op::ClearAll, Op::Get] {
            do_op(f, op);
        }
    }
    entry_once(R1);
    entry_once("c15-unrelated");
}

pub fn cleanup() {
    flow::clear_rules();
    cb::clear_rules();
    hotspot::clear_rules();
    isolation::clear_rules();
    system::clear_rules();
    cb::clear_state_change_listeners();
}

fn pair_body(fams: (Fam, Fam), ops: (Op, Op), third_entry: bool) -> Body {
    Arc::new(move || {
        clock::set_ms(T0_MS + 250);
        init(fams.0);
        if fams.1 != fams.0 {
            init(fams.1);
        }
        let mut hs = vec![];
        hs.push(shuttle::thread::spawn(move || do_op(fams.0, ops.0)));
        hs.push(shuttle::thread::spawn(move || do_op(fams.1, ops.1)));
        if third_entry {
            hs.push(shuttle::thread::spawn(move || entry_once(R1)));
        }
        for h in hs {
            h.join().unwrap();
        }
        health_probe();
        outcome(format!(
            "rules f{} c{} h{} i{} s{}",
            flow::get_rules().len(),
            cb::get_rules().len(),
            hotspot::get_rules().len(),
            isolation::get_rules().len(),
            system::get_rules().len()
        ));
        cleanup();
    })
}

struct CallbackListener;
impl cb::StateChangeListener for CallbackListener {
    fn on_transform_to_closed(&self, _p: cb::State, _r: Arc<cb::Rule>) {
        let _ = cb::get_rules();
        let _ = cb::get_breakers_of_resource(&R1.to_string());
    }
    fn on_transform_to_open(&self, _p: cb::State, _r: Arc<cb::Rule>, _s: Option<Arc<sentinel_core::base::Snapshot>>) {
        let _ = cb::get_rules();
        let _ = cb::get_breakers_of_resource(&R1.to_string());
    }
    fn on_transform_to_half_open(&self, _p: cb::State, _r: Arc<cb::Rule>) {
        let _ = cb::get_rules();
        let _ = cb::get_breakers_of_resource(&R1.to_string());
    }
    fn on_circuit_breaker_drop(&self, _p: cb::State, _r: Arc<cb::Rule>) {}
}
struct QuietListener;
impl cb::StateChangeListener for QuietListener {}

/// Breaker on R1 driven to Open, retry timeout elapsed; optionally a flow rule that rejects every
/// entry (so the probe is rejected by another rule and rolled back in the exit hook).
fn open_breaker(reject_probe: bool, callback: bool) {
    clock::set_ms(T0_MS + 250);
    if callback {
        cb::register_state_change_listeners(vec![Arc::new(CallbackListener)]);
    } else {
        cb::register_state_change_listeners(vec![Arc::new(QuietListener)]);
    }
    cb::load_rules(vec![Arc::new(cb::Rule { id: "open".into(), resource: R1.into(), strategy: cb::BreakerStrategy::ErrorCount, retry_timeout_ms: 100, min_request_amount: 1, stat_interval_ms: 1000, threshold: 1.0, ..Default::default() })]);
    let e = EntryBuilder::new(R1.to_string()).build().expect("closed breaker admits");
    e.set_err(sentinel_core::Error::msg("boom"));
    e.exit();
    assert!(cb::get_breakers_of_resource(&R1.to_string())[0].current_state() == cb::State::Open, "MACHINERY: breaker did not open");
    clock::advance_ms(200);
    if reject_probe {
        flow::load_rules(vec![Arc::new(flow::Rule { id: "rej".into(), resource: R1.into(), threshold: 0.0, ..Default::default() })]);
    }
}

fn breaker_body(reject_probe: bool, callback: bool, other: Op, with_err: bool) -> Body {
    Arc::new(move || {
        open_breaker(reject_probe, callback);
        let mut hs = vec![];
        hs.push(shuttle::thread::spawn(move || match EntryBuilder::new(R1.to_string()).build() {
            Ok(e) => {
                if with_err {
                    e.set_err(sentinel_core::Error::msg("boom"));
                }
                e.exit()
            }
            Err(_) => {}
        }));
        hs.push(shuttle::thread::spawn(move || do_op(Fam::Cb, other)));
        for h in hs {
            h.join().unwrap();
        }
        health_probe();
        outcome("done".into());
        cleanup();
    })
}

/// A custom generator that calls back into read-only manager functions of its own family,
/// registered for a Custom strategy; then a rule of that strategy is loaded / appended while a
/// second thread reads the rules.
fn generator_body(fam: Fam, via_append: bool) -> Body {
    Arc::new(move || {
        clock::set_ms(T0_MS + 250);
        init(fam);
        let r1 = R1.to_string();
        match fam {
            Fam::Flow => {
                use sentinel_verif_rt::sync::Mutex;
                flow::set_traffic_shaping_generator(
                    flow::CalculateStrategy::Custom(7),
                    flow::ControlStrategy::Reject,
                    Box::new(|rule: Arc<flow::Rule>, _stat| {
                        // read-only call-backs
                        let _ = flow::get_rules();
                        let _ = flow::get_rules_of_resource(&rule.resource);
                        let stat = Arc::new(flow::StandaloneStat::new(false, sentinel_core::base::nop_read_stat(), Some(sentinel_core::base::nop_write_stat())));
                        let calculator: Arc<Mutex<dyn flow::Calculator>> = Arc::new(Mutex::new(flow::DirectCalculator::new(std::sync::Weak::new(), rule.clone())));
                        let checker: Arc<Mutex<dyn flow::Checker>> = Arc::new(Mutex::new(flow::RejectChecker::new(std::sync::Weak::new(), rule.clone())));
                        let mut tc = flow::Controller::new(rule, stat);
                        tc.set_calculator(calculator.clone());
                        tc.set_checker(checker.clone());
                        let tc = Arc::new(tc);
                        calculator.lock().unwrap().set_owner(Arc::downgrade(&tc));
                        checker.lock().unwrap().set_owner(Arc::downgrade(&tc));
                        Ok(tc)
                    }),
                )
                .unwrap();
                let custom = Arc::new(flow::Rule { id: "custom".into(), resource: R1.into(), threshold: 5.0, calculate_strategy: flow::CalculateStrategy::Custom(7), ..Default::default() });
                let h = shuttle::thread::spawn(move || {
                    if via_append {
                        flow::append_rule(custom);
                    } else {
                        flow::load_rules(vec![custom]);
                    }
                });
                let h2 = shuttle::thread::spawn(move || {
                    let _ = flow::get_rules_of_resource(&r1);
                });
                h.join().unwrap();
                h2.join().unwrap();
                let _ = flow::remove_traffic_shaping_generator(flow::CalculateStrategy::Custom(7), flow::ControlStrategy::Reject);
            }
            Fam::Cb => {
                cb::set_circuit_breaker_generator(
                    cb::BreakerStrategy::Custom(7),
                    Box::new(|rule: Arc<cb::Rule>, _stat| {
                        let _ = cb::get_rules();
                        let _ = cb::get_rules_of_resource(&rule.resource);
                        Arc::new(cb::ErrorCountBreaker::new(rule))
                    }),
                )
                .unwrap();
                let custom = Arc::new(cb::Rule { id: "custom".into(), resource: R1.into(), strategy: cb::BreakerStrategy::Custom(7), retry_timeout_ms: 100, stat_interval_ms: 1000, threshold: 3.0, ..Default::default() });
                let h = shuttle::thread::spawn(move || {
                    if via_append {
                        cb::append_rule(custom);
                    } else {
                        cb::load_rules(vec![custom]);
                    }
                });
                let h2 = shuttle::thread::spawn(move || {
                    let _ = cb::get_rules_of_resource(&r1);
                });
                h.join().unwrap();
                h2.join().unwrap();
                let _ = cb::remove_circuit_breaker_generator(&cb::BreakerStrategy::Custom(7));
            }
            Fam::Hotspot => {
                use sentinel_verif_rt::sync::Mutex;
                hotspot::set_traffic_shaping_generator(
                    hotspot::ControlStrategy::Custom(7),
                    Box::new(|rule: Arc<hotspot::Rule>, _metric| {
                        let _ = hotspot::get_rules();
                        let _ = hotspot::get_rules_of_resource(&rule.resource);
                        let checker: Arc<Mutex<dyn hotspot::Checker<hotspot::Counter>>> = Arc::new(Mutex::new(hotspot::RejectChecker::<hotspot::Counter>::new()));
                        let mut tc = hotspot::Controller::new(rule);
                        tc.set_checker(checker.clone());
                        let tc = Arc::new(tc);
                        checker.lock().unwrap().set_owner(Arc::downgrade(&tc));
                        tc
                    }),
                )
                .unwrap();
                let custom = Arc::new(hotspot::Rule { id: "custom".into(), resource: R1.into(), metric_type: hotspot::MetricType::QPS, control_strategy: hotspot::ControlStrategy::Custom(7), threshold: 5, duration_in_sec: 1, ..Default::default() });
                let h = shuttle::thread::spawn(move || {
                    if via_append {
                        hotspot::append_rule(custom);
                    } else {
                        hotspot::load_rules(vec![custom]);
                    }
                });
                let h2 = shuttle::thread::spawn(move || {
                    let _ = hotspot::get_rules_of_resource(&r1);
                });
                h.join().unwrap();
                h2.join().unwrap();
                let _ = hotspot::remove_traffic_shaping_generator(hotspot::ControlStrategy::Custom(7));
            }
            _ => {}
        }
        health_probe();
        outcome("done".into());
        cleanup();
    })
}

pub fn scenarios(thorough: bool) -> Vec<Scenario> {
    let mut v = vec![];
    let ops = [Op::LoadSame, Op::LoadOther, Op::LoadRes, Op::Append, Op::ClearAll, Op::ClearRes, Op::Get, Op::LoadResEmpty];
    let sys_ops = [Op::LoadSame, Op::LoadOther, Op::Append, Op::ClearAll, Op::Get];
    let b = if thorough { 2 } else { 1 };
    for f in [Fam::Flow, Fam::Cb, Fam::Hotspot, Fam::Iso, Fam::Sys] {
        let ops: &[Op] = if f == Fam::Sys { &sys_ops } else { &ops };
        for (i, a) in ops.iter().enumerate() {
            for c in ops.iter().skip(i) {
                v.push(Scenario { name: format!("{:?}:{:?}||{:?}", f, a, c), bound: if thorough { 3 } else { b }, cap: 3_000_000, body: pair_body((f, f), (*a, *c), false) });
                let writer = |o: &Op| *o != Op::Get;
                if writer(a) || writer(c) {
                    // plus a concurrent entry/exit on the affected resource (quick: only for the appends and reloads)
                    if thorough || matches!((a, c), (Op::Append, _) | (_, Op::Append) | (Op::LoadOther, Op::ClearAll)) {
                        v.push(Scenario { name: format!("{:?}:{:?}||{:?}||Entry", f, a, c), bound: b, cap: 3_000_000, body: pair_body((f, f), (*a, *c), true) });
                    }
                }
            }
            // one manager op against a concurrent entry
            v.push(Scenario { name: format!("{:?}:{:?}||Entry", f, a), bound: if thorough { 3 } else { 2 }, cap: 3_000_000, body: pair_body((f, f), (*a, Op::Entry), false) });
        }
    }
    // cross-family pairs
    for (fa, fb) in [(Fam::Flow, Fam::Cb), (Fam::Hotspot, Fam::Iso), (Fam::Sys, Fam::Flow)] {
        for (a, c) in [(Op::LoadOther, Op::LoadOther), (Op::Append, Op::ClearAll), (Op::LoadRes, Op::Append)] {
            v.push(Scenario { name: format!("{:?}:{:?}||{:?}:{:?}||Entry", fa, a, fb, c), bound: b, cap: 3_000_000, body: pair_body((fa, fb), (a, c), true) });
        }
    }
    // custom generators that call back into read-only manager functions
    for f in [Fam::Flow, Fam::Cb, Fam::Hotspot] {
        for via_append in [false, true] {
            v.push(Scenario { name: format!("{:?}:custom-generator-calls-get_rules:{}", f, if via_append { "append" } else { "load" }), bound: 2, cap: 3_000_000, body: generator_body(f, via_append) });
        }
    }
    // breaker-specific: probe (rejected by another rule or not) racing with reloads, listeners calling back
    for reject in [true, false] {
        for callback in [false, true] {
            for other in [Op::LoadOther, Op::ClearAll, Op::LoadRes, Op::ClearRes, Op::Get] {
                v.push(Scenario { name: format!("Breaker:probe{}{}||{:?}", if reject { "-rejected" } else { "" }, if callback { "-callback-listener" } else { "" }, other), bound: if thorough { 3 } else { 2 }, cap: 3_000_000, body: breaker_body(reject, callback, other, !reject) });
            }
        }
    }
    v
}

pub fn run(o: &Opts, stats: &mut Stats) -> Option<usize> {
    run_scenarios(o, stats, scenarios(o.thorough))
}
