//! C12 — valid rules are enforceable without panics; invalid input never poisons Sentinel.
use crate::common::*;
use crate::sut::*;
use sentinel_core::base::{ParamsMap, SentinelRule, TrafficType};
use sentinel_core::{circuitbreaker as cb, flow, hotspot, isolation, system};
use serde_json::json;
use std::collections::HashMap;
use std::sync::Arc;

const RES: &str = "c12-res";
const REF_SEEN: &str = "c12-ref-seen";
const REF_UNSEEN: &str = "c12-ref-never-seen";
const UNRELATED: &str = "c12-unrelated";

#[derive(Clone, Debug)]
pub enum AnyRule {
    Flow(flow::Rule),
    Cb(cb::Rule),
    Hs(hotspot::Rule),
    Iso(isolation::Rule),
    Sys(system::Rule),
}

#[derive(Clone, Copy, Debug, PartialEq)]
pub enum Path {
    LoadAll,
    LoadRes,
    Append,
}

/// A logger that formats every record: rule Display/Debug runs inside the library's log macros
/// while manager locks are held, exactly as with logging switched on in production.
struct Sink;
impl log::Log for Sink {
    fn enabled(&self, _: &log::Metadata) -> bool {
        true
    }
    fn log(&self, record: &log::Record) {
        let s = format!("{}", record.args());
        std::hint::black_box(s.len());
    }
    fn flush(&self) {}
}
static SINK: Sink = Sink;

pub fn flow_cases() -> Vec<AnyRule> {
    let mut v = vec![];
    use flow::{CalculateStrategy as Ca, ControlStrategy as Co, RelationStrategy as Re};
    for calc in [Ca::Direct, Ca::WarmUp, Ca::MemoryAdaptive, Ca::Custom(1)] {
        for ctrl in [Co::Reject, Co::Throttling, Co::Custom(1)] {
            for (rel, refres) in [(Re::Current, ""), (Re::Associated, ""), (Re::Associated, REF_SEEN), (Re::Associated, REF_UNSEEN)] {
                for threshold in [1.0, 0.0, 0.5, 1e6, -1.0, f64::NAN] {
                    for interval in [0u32, 1, 500, 1000, 600_000] {
                        for (period, factor) in [(0u32, 0u32), (1, 0), (1, 1), (1, 2), (20, 6)] {
                            if calc != Ca::WarmUp && (period, factor) != (0, 0) {
                                continue;
                            }
                            for maxq in [0u32, 10] {
                                if ctrl != Co::Throttling && maxq != 0 {
                                    continue;
                                }
                                for mem in [(0u64, 0u64, 0u64, 0u64), (100, 10, 1024, 2048), (10, 100, 1024, 2048), (100, 10, 2048, 1024), (100, 10, 1024, u64::MAX)] {
                                    if calc != Ca::MemoryAdaptive && mem.0 != 0 {
                                        continue;
                                    }
                                    for resource in [RES, ""] {
                                        if resource.is_empty() && (threshold != 1.0 || interval != 0) {
                                            continue;
                                        }
                                        v.push(AnyRule::Flow(flow::Rule {
                                            id: format!("f{}", v.len()),
                                            resource: resource.into(),
                                            ref_resource: refres.into(),
                                            calculate_strategy: calc,
                                            control_strategy: ctrl,
                                            relation_strategy: rel,
                                            threshold,
                                            warm_up_period_sec: period,
                                            warm_up_cold_factor: factor,
                                            max_queueing_time_ms: maxq,
                                            stat_interval_ms: interval,
                                            low_mem_usage_threshold: mem.0,
                                            high_mem_usage_threshold: mem.1,
                                            mem_low_water_mark: mem.2,
                                            mem_high_water_mark: mem.3,
                                        }));
                                    }
                                }
                            }
                        }
                    }
                }
            }
        }
    }
    v
}

pub fn cb_cases() -> Vec<AnyRule> {
    let mut v = vec![];
    use cb::BreakerStrategy as S;
    for strategy in [S::SlowRequestRatio, S::ErrorRatio, S::ErrorCount, S::Custom(1)] {
        for retry in [1000u32, 0, 1, 600_000] {
            for min_request in [0u64, 1] {
                for interval in [1000u32, 0, 1, 600_000] {
                    for buckets in [0u32, 1, 3, 7] {
                        for max_rt in [0u64, 10] {
                            for threshold in [0.5, 0.0, 1.0, 2.0, 1e6, -1.0, f64::NAN] {
                                for resource in [RES, ""] {
                                    if resource.is_empty() && (threshold != 0.5 || interval != 1000 || buckets != 0) {
                                        continue;
                                    }
                                    v.push(AnyRule::Cb(cb::Rule { id: format!("c{}", v.len()), resource: resource.into(), strategy, retry_timeout_ms: retry, min_request_amount: min_request, stat_interval_ms: interval, stat_sliding_window_bucket_count: buckets, max_allowed_rt_ms: max_rt, threshold }));
                                }
                            }
                        }
                    }
                }
            }
        }
    }
    v
}

/// Dense sweeps of numeric fields that interact with each other (interval x bucket count,
/// interval vs. the node's global window, duration x threshold): boundary behaviour often depends
/// on divisibility relations between two fields, which a sparse product of boundary values misses.
pub fn dense_cases() -> Vec<AnyRule> {
    let mut v = vec![];
    for strategy in [cb::BreakerStrategy::ErrorCount, cb::BreakerStrategy::ErrorRatio, cb::BreakerStrategy::SlowRequestRatio] {
        for interval in [1u32, 2, 3, 10, 100, 999, 1000, 1001, 1024, 60_000] {
            for buckets in [0u32, 1, 2, 3, 4, 6, 7, 9, 10, 16, 39, 48, 100, 333, 500, 600, 999, 1000, 1001, 2000, u32::MAX] {
                v.push(AnyRule::Cb(cb::Rule { id: format!("cd{}", v.len()), resource: RES.into(), strategy, retry_timeout_ms: 100, min_request_amount: 1, stat_interval_ms: interval, stat_sliding_window_bucket_count: buckets, max_allowed_rt_ms: 5, threshold: 0.5 }));
            }
        }
    }
    for ctrl in [flow::ControlStrategy::Reject, flow::ControlStrategy::Throttling] {
        for calc in [flow::CalculateStrategy::Direct, flow::CalculateStrategy::WarmUp] {
            for interval in [1u32, 2, 3, 7, 100, 250, 499, 500, 501, 750, 999, 1000, 1001, 1500, 2000, 2500, 3000, 3500, 5000, 9500, 9999, 10000, 10001, 10500, 20000, 60_000, 600_000] {
                for threshold in [0.3, 1.0, 3.0, 1000.0] {
                    v.push(AnyRule::Flow(flow::Rule { id: format!("fd{}", v.len()), resource: RES.into(), calculate_strategy: calc, control_strategy: ctrl, threshold, stat_interval_ms: interval, warm_up_period_sec: 3, warm_up_cold_factor: 3, max_queueing_time_ms: 5, ..Default::default() }));
                }
            }
        }
    }
    for ctrl in [hotspot::ControlStrategy::Reject, hotspot::ControlStrategy::Throttling] {
        for duration in [1u64, 2, 3, 7, 60, 3600, 1 << 40, u64::MAX / 4000 + 1, u64::MAX / 1000, u64::MAX] {
            for threshold in [1u64, 2, 3, 7, 999, 1000, 1001, 1_000_000, u64::MAX / 2000, u64::MAX] {
                for burst in [0u64, 1, u64::MAX / 2] {
                    v.push(AnyRule::Hs(hotspot::Rule { id: format!("hd{}", v.len()), resource: RES.into(), metric_type: hotspot::MetricType::QPS, control_strategy: ctrl, threshold, burst_count: burst, duration_in_sec: duration, max_queueing_time_ms: 5, ..Default::default() }));
                }
            }
        }
    }
    v
}

pub fn hs_cases() -> Vec<AnyRule> {
    let mut v = vec![];
    use hotspot::{ControlStrategy as Co, MetricType as M};
    for metric in [M::QPS, M::Concurrency] {
        for ctrl in [Co::Reject, Co::Throttling, Co::Custom(1)] {
            for index in -3..=3isize {
                for key in ["", "k", " "] {
                    for capacity in [0usize, 2] {
                        for overrides in [vec![], vec![("a", 0u64)], vec![("a", 5u64), ("b", 1)]] {
                            for duration in [1u64, 0, 3] {
                                for threshold in [1u64, 0, 1_000_000] {
                                    for (burst, maxq) in [(0u64, 0u64), (2, 10)] {
                                        if metric == M::Concurrency && (duration != 1 || burst != 0 || ctrl != Co::Reject) {
                                            continue;
                                        }
                                        v.push(AnyRule::Hs(hotspot::Rule {
                                            id: format!("h{}", v.len()),
                                            resource: RES.into(),
                                            metric_type: metric,
                                            control_strategy: ctrl,
                                            param_index: index,
                                            param_key: key.into(),
                                            threshold,
                                            max_queueing_time_ms: maxq,
                                            burst_count: burst,
                                            duration_in_sec: duration,
                                            params_max_capacity: capacity,
                                            specific_items: overrides.iter().map(|(k, v)| (k.to_string(), *v)).collect(),
                                        }));
                                    }
                                }
                            }
                        }
                    }
                }
            }
        }
    }
    v.push(AnyRule::Hs(hotspot::Rule { id: "h-empty".into(), resource: "".into(), metric_type: M::QPS, duration_in_sec: 1, threshold: 1, ..Default::default() }));
    v
}

pub fn iso_sys_cases() -> Vec<AnyRule> {
    let mut v = vec![];
    for threshold in [1u32, 0, 2, 1_000_000, u32::MAX] {
        for resource in [RES, ""] {
            v.push(AnyRule::Iso(isolation::Rule { id: format!("i{}", v.len()), resource: resource.into(), threshold, ..Default::default() }));
        }
    }
    use system::{AdaptiveStrategy as A, MetricType as M};
    for metric in [M::Load, M::AvgRT, M::Concurrency, M::InboundQPS, M::CpuUsage] {
        for strategy in [A::NoAdaptive, A::BBR] {
            for threshold in [1.0, 0.0, 0.5, 100.0, 1e6, -1.0, f64::NAN, 100.5] {
                v.push(AnyRule::Sys(system::Rule { id: format!("s{}", v.len()), metric_type: metric, threshold, strategy }));
            }
        }
    }
    v
}

fn is_valid(r: &AnyRule) -> bool {
    match r {
        AnyRule::Flow(x) => x.is_valid().is_ok(),
        AnyRule::Cb(x) => x.is_valid().is_ok(),
        AnyRule::Hs(x) => x.is_valid().is_ok(),
        AnyRule::Iso(x) => x.is_valid().is_ok(),
        AnyRule::Sys(x) => x.is_valid().is_ok(),
    }
}
/// has a built-in generator (custom strategies without a registered generator are ignored)
fn has_generator(r: &AnyRule) -> bool {
    match r {
        AnyRule::Flow(x) => !matches!(x.calculate_strategy, flow::CalculateStrategy::Custom(_)) && !matches!(x.control_strategy, flow::ControlStrategy::Custom(_)),
        AnyRule::Cb(x) => !matches!(x.strategy, cb::BreakerStrategy::Custom(_)),
        AnyRule::Hs(x) => !matches!(x.control_strategy, hotspot::ControlStrategy::Custom(_)),
        _ => true,
    }
}
fn res_of(r: &AnyRule) -> String {
    match r {
        AnyRule::Flow(x) => x.resource.clone(),
        AnyRule::Cb(x) => x.resource.clone(),
        AnyRule::Hs(x) => x.resource.clone(),
        AnyRule::Iso(x) => x.resource.clone(),
        AnyRule::Sys(_) => RES.into(),
    }
}
fn id_of(r: &AnyRule) -> String {
    match r {
        AnyRule::Flow(x) => x.id.clone(),
        AnyRule::Cb(x) => x.id.clone(),
        AnyRule::Hs(x) => x.id.clone(),
        AnyRule::Iso(x) => x.id.clone(),
        AnyRule::Sys(x) => x.id.clone(),
    }
}

fn load(r: &AnyRule, p: Path) {
    let res = res_of(r);
    match (r, p) {
        (AnyRule::Flow(x), Path::LoadAll) => {
            flow::load_rules(vec![Arc::new(x.clone())]);
        }
        (AnyRule::Flow(x), Path::LoadRes) => {
            let _ = flow::load_rules_of_resource(&res, vec![Arc::new(x.clone())]);
        }
        (AnyRule::Flow(x), Path::Append) => {
            flow::append_rule(Arc::new(x.clone()));
        }
        (AnyRule::Cb(x), Path::LoadAll) => {
            cb::load_rules(vec![Arc::new(x.clone())]);
        }
        (AnyRule::Cb(x), Path::LoadRes) => {
            let _ = cb::load_rules_of_resource(&res, vec![Arc::new(x.clone())]);
        }
        (AnyRule::Cb(x), Path::Append) => {
            cb::append_rule(Arc::new(x.clone()));
        }
        (AnyRule::Hs(x), Path::LoadAll) => {
            hotspot::load_rules(vec![Arc::new(x.clone())]);
        }
        (AnyRule::Hs(x), Path::LoadRes) => {
            let _ = hotspot::load_rules_of_resource(&res, vec![Arc::new(x.clone())]);
        }
        (AnyRule::Hs(x), Path::Append) => {
            hotspot::append_rule(Arc::new(x.clone()));
        }
        (AnyRule::Iso(x), Path::LoadAll) => isolation::load_rules(vec![Arc::new(x.clone())]),
        (AnyRule::Iso(x), Path::LoadRes) => {
            let _ = isolation::load_rules_of_resource(&res, vec![Arc::new(x.clone())]);
        }
        (AnyRule::Iso(x), Path::Append) => {
            isolation::append_rule(Arc::new(x.clone()));
        }
        (AnyRule::Sys(x), Path::LoadAll) | (AnyRule::Sys(x), Path::LoadRes) => system::load_rules(vec![Arc::new(x.clone())]),
        (AnyRule::Sys(x), Path::Append) => {
            system::append_rule(Arc::new(x.clone()));
        }
    }
}
fn reported(r: &AnyRule) -> Vec<String> {
    match r {
        AnyRule::Flow(_) => flow::get_rules().iter().map(|x| x.id.clone()).collect(),
        AnyRule::Cb(_) => cb::get_rules().iter().map(|x| x.id.clone()).collect(),
        AnyRule::Hs(_) => hotspot::get_rules().iter().map(|x| x.id.clone()).collect(),
        AnyRule::Iso(_) => isolation::get_rules().iter().map(|x| x.id.clone()).collect(),
        AnyRule::Sys(_) => system::get_rules().iter().map(|x| x.id.clone()).collect(),
    }
}

fn guarded<T>(what: &str, f: impl FnOnce() -> T) -> Result<T, String> {
    std::panic::catch_unwind(std::panic::AssertUnwindSafe(f)).map_err(|e| format!("panic@{}: during {}: {}", last_panic_loc(), what, panic_msg(e).chars().take(160).collect::<String>()))
}

/// Exercise one rule through one loading entry point. Returns the number of entries built.
pub fn exercise(r: &AnyRule, p: Path, existing: bool) -> Result<u64, String> {
    reset_world(T0_MS + 250);
    let mut held = vec![];
    // the "seen" reference resource has a statistics node
    if let Built::Ok(e) = build(REF_SEEN, TrafficType::Inbound, 1) {
        e.exit();
    }
    if existing {
        // the resource already has a valid rule of the family, and traffic
        let benign = match r {
            AnyRule::Flow(_) => AnyRule::Flow(flow::Rule { id: "benign".into(), resource: RES.into(), threshold: 5.0, ..Default::default() }),
            AnyRule::Cb(_) => AnyRule::Cb(cb::Rule { id: "benign".into(), resource: RES.into(), strategy: cb::BreakerStrategy::ErrorCount, retry_timeout_ms: 100, stat_interval_ms: 1000, threshold: 3.0, ..Default::default() }),
            AnyRule::Hs(_) => AnyRule::Hs(hotspot::Rule { id: "benign".into(), resource: RES.into(), metric_type: hotspot::MetricType::QPS, duration_in_sec: 1, threshold: 5, ..Default::default() }),
            AnyRule::Iso(_) => AnyRule::Iso(isolation::Rule { id: "benign".into(), resource: RES.into(), threshold: 5, ..Default::default() }),
            AnyRule::Sys(_) => AnyRule::Sys(system::Rule { id: "benign".into(), metric_type: system::MetricType::InboundQPS, threshold: 1000.0, ..Default::default() }),
        };
        guarded("loading a benign rule", || load(&benign, Path::LoadAll))?;
        if let Built::Ok(e) = build(RES, TrafficType::Inbound, 1) {
            e.exit();
        }
        // ... and three entries still in flight while the rule under test arrives (a cap loaded
        // now may already be exceeded)
        for _ in 0..3 {
            if let Built::Ok(e) = build_full(RES, TrafficType::Inbound, 1, Some(vec!["a".into()]), None) {
                held.push(e);
            }
        }
    }
    let valid = guarded("is_valid", || is_valid(r))?;
    // rules are printed by the library's own log statements and by users: Display/Debug must work
    guarded("Display of the rule", || match r {
        AnyRule::Flow(x) => format!("{} {:?}", x, x),
        AnyRule::Cb(x) => format!("{} {:?}", x, x),
        AnyRule::Hs(x) => format!("{} {:?}", x, x),
        AnyRule::Iso(x) => format!("{} {:?}", x, x),
        AnyRule::Sys(x) => format!("{} {:?}", x, x),
    })?;
    guarded(&format!("{:?}", p), || load(r, p))?;
    let ids = guarded("get_rules", || reported(r))?;
    let present = ids.contains(&id_of(r));
    if !valid && present {
        return Err(format!("invalid-rule-active: rule rejected by is_valid is reported by get_rules after {:?}", p));
    }
    if valid && has_generator(r) && !present && !res_of(r).is_empty() {
        return Err(format!("valid-rule-dropped: rule accepted by is_valid is not reported by get_rules after {:?}", p));
    }
    // entries of every shape
    let mut n = 0;
    let mut att_match: ParamsMap = HashMap::new();
    att_match.insert("k".into(), "a".into());
    let mut att_other: ParamsMap = HashMap::new();
    att_other.insert("other".into(), "b".into());
    let shapes: Vec<(u32, Option<Vec<String>>, Option<ParamsMap>, TrafficType, bool)> = vec![
        (1, None, None, TrafficType::Inbound, false),
        (1, Some(vec!["a".into()]), None, TrafficType::Outbound, true),
        (0, Some(vec!["a".into(), "b".into(), "c".into(), "d".into()]), Some(att_match.clone()), TrafficType::Inbound, false),
        (2, None, Some(att_other.clone()), TrafficType::Outbound, false),
        (1_000_000, Some(vec!["b".into()]), Some(att_match.clone()), TrafficType::Inbound, true),
        (1, Some(vec!["a".into(), "b".into(), "c".into(), "d".into()]), None, TrafficType::Inbound, false),
        (2, Some(vec!["a".into()]), Some(att_other.clone()), TrafficType::Inbound, false),
        (1, None, Some(att_match.clone()), TrafficType::Outbound, true),
    ];
    let target = if res_of(r).is_empty() { RES.to_string() } else { res_of(r) };
    for (round, gap) in [0u64, 1, 1000].iter().enumerate() {
        advance_ms(*gap);
        for (batch, args, att, tt, err) in &shapes {
            n += 1;
            let (b, a, at, tt, err) = (*batch, args.clone(), att.clone(), *tt, *err);
            let target = target.clone();
            guarded(&format!("entry (batch {}, args {:?}, round {})", b, args, round), move || {
                if let Built::Ok(e) = build_full(&target, tt, b, a, at) {
                    advance_ms(1);
                    if err {
                        e.set_err(sentinel_core::Error::msg("boom"));
                    }
                    e.exit();
                }
            })?;
        }
    }
    guarded("exit of the entries that were in flight when the rule was loaded", move || {
        for e in held {
            advance_ms(1);
            e.exit();
        }
    })?;
    // later calls keep working: every manager answers, an unrelated resource can be used
    guarded("health probe", || {
        let _ = (flow::get_rules(), cb::get_rules(), hotspot::get_rules(), isolation::get_rules(), system::get_rules());
        flow::load_rules(vec![Arc::new(flow::Rule { id: "probe".into(), resource: UNRELATED.into(), threshold: 1.0, ..Default::default() })]);
        hotspot::append_rule(Arc::new(hotspot::Rule { id: "probe".into(), resource: UNRELATED.into(), metric_type: hotspot::MetricType::QPS, duration_in_sec: 1, threshold: 1, ..Default::default() }));
        cb::append_rule(Arc::new(cb::Rule { id: "probe".into(), resource: UNRELATED.into(), strategy: cb::BreakerStrategy::ErrorCount, retry_timeout_ms: 10, stat_interval_ms: 1000, threshold: 1.0, ..Default::default() }));
        isolation::append_rule(Arc::new(isolation::Rule { id: "probe".into(), resource: UNRELATED.into(), threshold: 1, ..Default::default() }));
        if let Built::Ok(e) = build_full(UNRELATED, TrafficType::Outbound, 1, Some(vec!["a".into()]), None) {
            e.exit();
        }
        let _ = (flow::get_rules_of_resource(&UNRELATED.to_string()), cb::get_breakers_of_resource(&UNRELATED.to_string()));
        // the documented way to clear one resource: an empty list through the per-resource loader
        let _ = flow::load_rules_of_resource(&UNRELATED.to_string(), vec![]);
        let _ = hotspot::load_rules_of_resource(&UNRELATED.to_string(), vec![]);
        let _ = cb::load_rules_of_resource(&UNRELATED.to_string(), vec![]);
        let _ = isolation::load_rules_of_resource(&UNRELATED.to_string(), vec![]);
        let _ = (flow::get_rules(), cb::get_rules(), hotspot::get_rules(), isolation::get_rules());
    })?;
    Ok(n)
}

pub fn all_cases() -> Vec<AnyRule> {
    let mut v = flow_cases();
    v.extend(cb_cases());
    v.extend(hs_cases());
    v.extend(iso_sys_cases());
    v.extend(dense_cases());
    v
}

pub fn run(o: &Opts, stats: &mut Stats) -> Option<usize> {
    let _ = log::set_logger(&SINK);
    log::set_max_level(log::LevelFilter::Trace);
    let cases = all_cases();
    let paths = [Path::LoadAll, Path::LoadRes, Path::Append];
    if let Some(path) = &o.replay {
        let v: serde_json::Value = serde_json::from_str(&std::fs::read_to_string(path).unwrap()).unwrap();
        let idx = v["config"]["case"].as_u64().unwrap() as usize;
        let p = paths[v["config"]["path"].as_u64().unwrap() as usize];
        let existing = v["config"]["existing"].as_bool().unwrap();
        println!("case {}: {:?} via {:?} existing={}", idx, cases[idx], p, existing);
        match exercise(&cases[idx], p, existing) {
            Err(why) => {
                println!("REPLAY-RESULT: violation: {}", why);
                stats.violations.push(Violation { sig: sig_of(&cases[idx], &why), config: v["config"].clone(), trace: json!({}), why });
            }
            Ok(_) => println!("REPLAY-RESULT: no violation"),
        }
        return None;
    }
    // work units: (case, path, existing)
    let stride = if o.thorough { 1 } else { 11 };
    let mut unit = 0usize;
    for (ci, c) in cases.iter().enumerate() {
        for (pi, p) in paths.iter().enumerate() {
            for existing in [false, true] {
                unit += 1;
                let idx = unit - 1;
                if !o.mine(idx) {
                    continue;
                }
                // quick: a covering subset (every 11th unit: coprime with the 6 path x existing variants)
                // (the dense sweeps and the small isolation / system catalogues are always visited)
                if idx % stride != 0 && !id_of(c).contains('d') && !matches!(c, AnyRule::Iso(_) | AnyRule::Sys(_)) {
                    continue;
                }
                set_now_cfg(json!({"case": ci, "path": pi, "existing": existing, "rule": format!("{:?}", c)}).to_string());
                stats.configs += 1;
                stats.executions += 1;
                stats.states.insert(idx as u64);
                match exercise(c, *p, existing) {
                    Ok(n) => {
                        stats.transitions += n;
                        let valid = is_valid(c);
                        stats.outcome(&format!("{}-{}", fam(c), if valid { "valid" } else { "invalid" }));
                        if valid {
                            stats.nontrivial += 1;
                        }
                        if stats.samples.len() < 3 && idx % 997 == 0 {
                            stats.sample(json!({"rule": format!("{:?}", c), "path": format!("{:?}", p), "existing_rules": existing, "entries": n}));
                        }
                    }
                    Err(why) => {
                        let panicked = why.starts_with("panic@");
                        if stats.violations.len() < 200 {
                            stats.violations.push(Violation { sig: sig_of(c, &why), config: json!({"case": ci, "path": pi, "existing": existing, "rule": format!("{:?}", c)}), trace: json!({}), why });
                        }
                        if panicked {
                            // a panic may have poisoned a manager: continue in a fresh process
                            return Some(idx + 1);
                        }
                    }
                }
            }
        }
    }
    if stats.samples.is_empty() {
        stats.sample(json!({"rule": format!("{:?}", cases[0]), "path": "LoadAll"}));
    }
    None
}

fn fam(c: &AnyRule) -> &'static str {
    match c {
        AnyRule::Flow(_) => "flow",
        AnyRule::Cb(_) => "breaker",
        AnyRule::Hs(_) => "hotspot",
        AnyRule::Iso(_) => "isolation",
        AnyRule::Sys(_) => "system",
    }
}
fn sig_of(c: &AnyRule, why: &str) -> String {
    let head = why.split(':').next().unwrap_or("");
    format!("{}:{}", fam(c), head)
}
