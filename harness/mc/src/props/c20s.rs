//! C20 (second part, schedule explorer) — the middleware releases its admission when requests on
//! one resource finish on different threads at the same time.
//!
//! Each thread owns a clone of one SentinelService (what a multi-threaded server does) and drives
//! its requests to completion with a no-op waker; every interleaving of the threads' lock / atomic
//! operations up to the preemption bound is executed. After all threads finished: nothing is in
//! flight on the resource node (nor on the inbound node), the inner service was called exactly
//! once per admitted request, and - when the isolation threshold is at least the number of
//! threads, each of which has at most one request in flight - nothing was rejected.
use super::c20::{extract, fb_ok, Inner, Outcome, Req, RES};
use crate::common::*;
use crate::sched::*;
use sentinel_core::base::ConcurrencyStat;
use sentinel_core::{isolation, stat};
use sentinel_tower::{SentinelService, ServiceRole};
use sentinel_verif_rt::clock;
use std::future::Future;
use std::sync::atomic::{AtomicUsize, Ordering};
use std::sync::Arc;
use std::task::{Context, Poll, Waker};
use tower::Service;

fn body(threshold: u32, per_thread: Vec<Vec<Outcome>>, server: bool) -> Body {
    Arc::new(move || {
        clock::set_ms(T0_MS);
        isolation::load_rules(vec![Arc::new(isolation::Rule { id: "iso".into(), resource: RES.into(), threshold, ..Default::default() })]);
        let calls = Arc::new(AtomicUsize::new(0));
        let role = if server { ServiceRole::Server } else { ServiceRole::Client };
        let svc: SentinelService<Inner, Req> = SentinelService::new(Inner::new(calls.clone()), role).with_extractor(extract).with_fallback(fb_ok);
        let mut hs = vec![];
        for (t, outs) in per_thread.iter().cloned().enumerate() {
            let mut s = svc.clone();
            hs.push(shuttle::thread::spawn(move || {
                let waker = Waker::noop();
                let mut cx = Context::from_waker(&waker);
                let mut admitted = 0u32;
                let mut rejected = 0u32;
                for (i, o) in outs.iter().enumerate() {
                    let id = (t * 10 + i) as u32 + 1;
                    if !matches!(s.poll_ready(&mut cx), Poll::Ready(Ok(()))) {
                        panic!("ORACLE: not-ready: poll_ready of the middleware is not ready over an always-ready inner service");
                    }
                    let mut fut = s.call((id, *o));
                    let mut polls = 0;
                    let r = loop {
                        polls += 1;
                        match fut.as_mut().poll(&mut cx) {
                            Poll::Ready(r) => break r,
                            Poll::Pending => {
                                if polls > 3 {
                                    panic!("ORACLE: never-resolves: request {} still pending after {} polls", id, polls);
                                }
                            }
                        }
                    };
                    match r {
                        Ok(9999) => rejected += 1,
                        Ok(v) => {
                            if v != id || !matches!(o, Outcome::ReadyOk | Outcome::PendingThenOk) {
                                panic!("ORACLE: wrong-output: request {} ({:?}) resolved to Ok({})", id, o, v);
                            }
                            admitted += 1;
                        }
                        Err(e) => {
                            if matches!(o, Outcome::ReadyOk | Outcome::PendingThenOk) {
                                panic!("ORACLE: wrong-output: request {} ({:?}) resolved to Err({})", id, o, e);
                            }
                            admitted += 1;
                        }
                    }
                }
                (admitted, rejected)
            }));
        }
        let mut admitted = 0;
        let mut rejected = 0;
        for h in hs {
            let (a, r) = h.join().unwrap();
            admitted += a;
            rejected += r;
        }
        let inner_calls = calls.load(Ordering::SeqCst) as u32;
        let conc = stat::get_resource_node(&RES.to_string()).map(|n| n.current_concurrency()).unwrap_or(0);
        let ib = stat::inbound_node().current_concurrency();
        outcome(format!("admitted={} rejected={} inflight={}", admitted, rejected, conc));
        if conc != 0 || ib != 0 {
            panic!("ORACLE: in-flight: every request finished but the resource reports {} in flight (inbound node {}); admitted {}, rejected {}", conc, ib, admitted, rejected);
        }
        if inner_calls != admitted {
            panic!("ORACLE: inner-calls: the inner service was called {} times for {} admitted requests ({} rejected)", inner_calls, admitted, rejected);
        }
        if threshold as usize >= per_thread.len() && rejected != 0 {
            panic!("ORACLE: rejected-under-cap: {} requests rejected although at most {} can be in flight and the rule allows {}", rejected, per_thread.len(), threshold);
        }
        if admitted == 0 {
            panic!("ORACLE: nothing-admitted: threshold {} but no request was admitted", threshold);
        }
    })
}

pub fn scenarios(thorough: bool) -> Vec<Scenario> {
    use Outcome::*;
    let mut v = vec![];
    let mut add = |name: &str, threshold: u32, per_thread: Vec<Vec<Outcome>>, server: bool, bound: u8| {
        v.push(Scenario { name: format!("tower:{}:T{}:{}", name, threshold, if server { "server" } else { "client" }), bound, cap: 0, body: body(threshold, per_thread, server) });
    };
    add("ok||err", 2, vec![vec![ReadyOk], vec![ReadyErr]], false, 2);
    add("pending-ok||pending-err", 2, vec![vec![PendingThenOk], vec![PendingThenErr]], true, 2);
    add("ok||ok:cap1", 1, vec![vec![ReadyOk], vec![ReadyOk]], false, 2);
    if thorough {
        add("ok||err", 2, vec![vec![ReadyOk], vec![ReadyErr]], true, 3);
        add("err,ok||pending-err", 2, vec![vec![ReadyErr, ReadyOk], vec![PendingThenErr]], false, 2);
        add("ok||err||pending-ok", 3, vec![vec![ReadyOk], vec![ReadyErr], vec![PendingThenOk]], false, 2);
        add("err||pending-ok:cap1", 1, vec![vec![ReadyErr], vec![PendingThenOk]], true, 2);
    }
    v
}

pub fn run(o: &Opts, stats: &mut Stats) -> Option<usize> {
    run_scenarios(o, stats, scenarios(o.thorough))
}
