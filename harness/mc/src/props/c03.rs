//! C03 — circuit breakers follow the Closed/Open/Half-Open state machine.
use super::{run_configs, Pass};
use crate::common::*;
use crate::explore::Subject;
use crate::model::breaker::*;
use crate::sut::*;
use sentinel_core::base::{EntryStrongPtr, TrafficType};
use sentinel_core::{circuitbreaker as cb, isolation};
use serde::{Deserialize, Serialize};
use std::sync::{Arc, Mutex};

#[derive(Serialize, Deserialize, Clone, Debug)]
pub struct RuleCfg {
    pub strat: Strat,
    pub min_request: u64,
    pub threshold: f64,
    pub buckets: u32,
    pub retry: u32,
}
#[derive(Serialize, Deserialize, Clone, Debug)]
pub struct Cfg {
    pub rules: Vec<RuleCfg>,
    /// isolation rule with threshold 1 on the same resource (rejects a probe while an entry is open)
    pub isolation: bool,
    pub phase: u64,
}

#[derive(Clone, Debug)]
pub enum Op {
    /// request an entry carrying `batch` tokens (the isolation rule counts them)
    Enter(u32),
    Complete { i: usize, err: bool },
    Advance(u64),
}

const RES: &str = "c03-res";
const INTERVAL: u32 = 1000;
const MAX_RT: u64 = 10;

type Log = Arc<Mutex<Vec<Event>>>;
struct Rec(Log);
fn st(s: cb::State) -> St {
    match s {
        cb::State::Closed => St::Closed,
        cb::State::Open => St::Open,
        cb::State::HalfOpen => St::HalfOpen,
    }
}
impl cb::StateChangeListener for Rec {
    fn on_transform_to_closed(&self, p: cb::State, r: Arc<cb::Rule>) {
        self.0.lock().unwrap().push((r.id.clone(), st(p), St::Closed));
    }
    fn on_transform_to_open(&self, p: cb::State, r: Arc<cb::Rule>, _s: Option<Arc<sentinel_core::base::Snapshot>>) {
        self.0.lock().unwrap().push((r.id.clone(), st(p), St::Open));
    }
    fn on_transform_to_half_open(&self, p: cb::State, r: Arc<cb::Rule>) {
        self.0.lock().unwrap().push((r.id.clone(), st(p), St::HalfOpen));
    }
}

struct Open {
    e: EntryStrongPtr,
    start: u64,
}

#[derive(Default, Clone)]
struct Witness {
    opened: u64,
    probe_admitted: u64,
    probe_closed: u64,
    probe_reopened: u64,
    probe_rolled_back: u64,
    stale_in_half_open: u64,
    window_expired: u64,
    blocked_while_open: u64,
}

pub struct C03 {
    cfg: Cfg,
    models: Vec<BreakerRef>,
    order: Vec<usize>,
    log: Log,
    mlog: Vec<Event>,
    open: Vec<Open>,
    w: Witness,
    last_complete: Option<u64>,
}

impl C03 {
    pub fn new(cfg: &Cfg) -> Self {
        C03 { cfg: cfg.clone(), models: vec![], order: vec![], log: Arc::new(Mutex::new(vec![])), mlog: vec![], open: vec![], w: Witness::default(), last_complete: None }
    }
    fn compare(&self, what: &str) -> Result<(), String> {
        let real = self.log.lock().unwrap().clone();
        if real != self.mlog {
            return Err(format!("listener-log: after {}: announced {:?}, state machine prescribes {:?}", what, real, self.mlog));
        }
        let bs = cb::get_breakers_of_resource(&RES.to_string());
        for (k, b) in bs.iter().enumerate() {
            let m = &self.models[self.order[k]];
            if st(b.current_state()) != m.state {
                return Err(format!("state: after {}: breaker {} is {:?}, state machine prescribes {:?}", what, m.id, st(b.current_state()), m.state));
            }
            // hidden state: the statistics the next decision will be taken from
            let t = now_ms();
            let mut real: Vec<(u64, (u64, u64))> = b.stat().verif_raw_slots().iter().filter(|w| w.start_stamp() != 0 && t - w.start_stamp() <= m.interval).map(|w| (w.start_stamp(), w.value().verif_get())).filter(|x| x.1 != (0, 0)).collect();
            real.sort();
            let mut want: Vec<(u64, (u64, u64))> = m.counters.iter().filter(|(s, _)| t - **s <= m.interval).map(|(s, c)| (*s, *c)).filter(|x| x.1 != (0, 0)).collect();
            want.sort();
            if real != want {
                return Err(format!("statistics: after {}: breaker {} holds (bucket,(bad,total)) {:?}, state machine prescribes {:?}", what, m.id, real.iter().map(|x| (x.0 - T0_MS, x.1)).collect::<Vec<_>>(), want.iter().map(|x| (x.0 - T0_MS, x.1)).collect::<Vec<_>>()));
            }
            if b.next_retry_timestamp_ms() != m.next_retry {
                return Err(format!("retry-deadline: after {}: breaker {} retries at {}, state machine prescribes {}", what, m.id, b.next_retry_timestamp_ms(), m.next_retry));
            }
        }
        Ok(())
    }
}

impl Subject for C03 {
    type Op = Op;
    fn reset(&mut self) {
        for o in self.open.drain(..) {
            o.e.exit();
        }
        reset_world(T0_MS + self.cfg.phase);
        self.log = Arc::new(Mutex::new(vec![]));
        cb::register_state_change_listeners(vec![Arc::new(Rec(self.log.clone()))]);
        self.mlog.clear();
        self.w = Witness::default();
        self.last_complete = None;
        self.models = self
            .cfg
            .rules
            .iter()
            .enumerate()
            .map(|(i, r)| BreakerRef::new(&format!("b{}", i), r.strat, r.min_request, r.threshold, INTERVAL as u64, r.buckets as u64, r.retry as u64, MAX_RT))
            .collect();
        let rules: Vec<Arc<cb::Rule>> = self
            .cfg
            .rules
            .iter()
            .enumerate()
            .map(|(i, r)| {
                Arc::new(cb::Rule {
                    id: format!("b{}", i),
                    resource: RES.into(),
                    strategy: match r.strat {
                        Strat::SlowRequestRatio => cb::BreakerStrategy::SlowRequestRatio,
                        Strat::ErrorRatio => cb::BreakerStrategy::ErrorRatio,
                        Strat::ErrorCount => cb::BreakerStrategy::ErrorCount,
                    },
                    retry_timeout_ms: r.retry,
                    min_request_amount: r.min_request,
                    stat_interval_ms: INTERVAL,
                    stat_sliding_window_bucket_count: r.buckets,
                    max_allowed_rt_ms: MAX_RT,
                    threshold: r.threshold,
                })
            })
            .collect();
        cb::load_rules(rules);
        if self.cfg.isolation {
            isolation::load_rules(vec![Arc::new(isolation::Rule { id: "iso".into(), resource: RES.into(), threshold: 1, ..Default::default() })]);
        }
        // the order in which the slot consults the breakers is observable
        self.order = cb::get_breakers_of_resource(&RES.to_string()).iter().map(|b| b.bound_rule().id[1..].parse::<usize>().unwrap()).collect();
    }
    fn enabled(&self) -> Vec<Op> {
        let mut v = vec![];
        // default: complete the oldest entry with an error if one is open, else enter
        if !self.open.is_empty() {
            v.push(Op::Complete { i: 0, err: true });
            v.push(Op::Enter(1));
        } else {
            v.push(Op::Enter(1));
        }
        if self.cfg.isolation {
            // exceeds the isolation threshold even with nothing in flight
            v.push(Op::Enter(3));
        }
        for i in 0..self.open.len().min(3) {
            if i > 0 {
                v.push(Op::Complete { i, err: true });
            }
            v.push(Op::Complete { i, err: false });
        }
        let mut adv = vec![1, MAX_RT + 1, INTERVAL as u64 / 2, INTERVAL as u64];
        if self.cfg.rules.iter().any(|r| r.strat == Strat::SlowRequestRatio) {
            // a response time of EXACTLY max_allowed_rt is not slow
            adv.push(MAX_RT);
        }
        for r in &self.cfg.rules {
            adv.push(r.retry as u64);
            adv.push(r.retry as u64 - 1);
            adv.push(INTERVAL as u64 / r.buckets.max(1) as u64);
        }
        adv.sort();
        adv.dedup();
        for a in adv {
            v.push(Op::Advance(a));
        }
        v
    }
    fn step(&mut self, op: &Op) -> Result<(), String> {
        let t = now_ms();
        match op {
            Op::Advance(d) => {
                advance_ms(*d);
                Ok(())
            }
            Op::Enter(batch) => {
                if self.open.len() >= 3 {
                    return Ok(());
                }
                // reference: isolation first (slot order 3000 < 5000); the breaker slot is consulted
                // even if an earlier slot already rejected the entry
                let iso_block = self.cfg.isolation && self.open.len() as u32 + batch > 1;
                let mut probes = vec![];
                let mut cb_block = false;
                for &k in &self.order {
                    let was_open = self.models[k].state == St::Open;
                    let (pass, probe) = self.models[k].try_pass(t, &mut self.mlog);
                    if probe {
                        probes.push(k);
                        self.w.probe_admitted += 1;
                    }
                    if !pass {
                        cb_block = true;
                        if was_open {
                            self.w.blocked_while_open += 1;
                        }
                        break;
                    }
                }
                let expect_ok = !iso_block && !cb_block;
                if !expect_ok {
                    for k in probes {
                        if self.models[k].state == St::HalfOpen {
                            self.w.probe_rolled_back += 1;
                        }
                        self.models[k].probe_rejected(&mut self.mlog);
                    }
                }
                match build(RES, TrafficType::Outbound, *batch) {
                    Built::Ok(e) => {
                        if !expect_ok {
                            return Err(format!("admitted: request admitted at t=+{} although {} rejects it", t - T0_MS, if cb_block { "an Open/Half-Open breaker" } else { "the isolation rule" }));
                        }
                        self.open.push(Open { e, start: t });
                    }
                    Built::Blocked(b, _) => {
                        if expect_ok {
                            return Err(format!("rejected: request rejected ({}) at t=+{} although every breaker lets it pass; breaker states {:?}", b.block_type, t - T0_MS, self.models.iter().map(|m| m.state).collect::<Vec<_>>()));
                        }
                        let want = if cb_block { "CircuitBreaking" } else { "SystemFlow|Isolation" };
                        if cb_block && b.block_type != "CircuitBreaking" {
                            return Err(format!("block-type: {} (expected {})", b.block_type, want));
                        }
                    }
                }
                self.compare("enter")
            }
            Op::Complete { i, err } => {
                let o = self.open.remove(*i);
                if *err {
                    o.e.set_err(sentinel_core::Error::msg("boom"));
                }
                let rt = t - o.start;
                if let Some(p) = self.last_complete {
                    if t - p > INTERVAL as u64 {
                        self.w.window_expired += 1;
                    }
                }
                self.last_complete = Some(t);
                for &k in &self.order.clone() {
                    let before = self.models[k].state;
                    self.models[k].complete(t, rt, *err, &mut self.mlog);
                    let after = self.models[k].state;
                    match (before, after) {
                        (St::Closed, St::Open) => self.w.opened += 1,
                        (St::HalfOpen, St::Closed) => self.w.probe_closed += 1,
                        (St::HalfOpen, St::Open) => self.w.probe_reopened += 1,
                        _ => {}
                    }
                    if before == St::HalfOpen && o.start < self.models[k].next_retry.saturating_sub(self.models[k].retry) {
                        self.w.stale_in_half_open += 1;
                    }
                }
                o.e.exit();
                self.compare("complete")
            }
        }
    }
    fn finish(&mut self) -> Result<(), String> {
        self.compare("end")
    }
    /// Canonical state: everything the future depends on, time-normalised. It is computed from the
    /// reference machine, which `compare` has just asserted equal to the implementation's visible
    /// AND hidden state (breaker state, retry deadline, per-bucket counters), so merging two
    /// histories on it merges equal implementation states.
    fn key(&self) -> Option<u64> {
        let now = now_ms();
        let mut parts: Vec<i64> = vec![];
        for m in &self.models {
            let len = m.len();
            parts.push(match m.state {
                St::Closed => 0,
                St::Open => 1,
                St::HalfOpen => 2,
            });
            // the deadline matters only while Open, and only by how far ahead it is
            parts.push(if m.state == St::Open { m.next_retry.saturating_sub(now) as i64 } else { -1 });
            parts.push((now % len) as i64);
            parts.push(((now / len) % m.buckets) as i64);
            for (s, c) in m.counters.iter().filter(|(s, c)| now - **s <= m.interval && **c != (0, 0)) {
                parts.push(((now - now % len) - *s) as i64);
                parts.push(c.0 as i64);
                parts.push(c.1 as i64);
            }
            parts.push(-7);
        }
        for o in &self.open {
            // only "slow or not" can depend on the age
            parts.push((now - o.start).min(MAX_RT + 1) as i64);
        }
        Some(hash64(&parts))
    }
    fn nontrivial(&self) -> bool {
        !self.mlog.is_empty()
    }
    fn outcome(&self) -> String {
        self.mlog.iter().map(|e| format!("{}{}", &e.0[1..], match e.2 { St::Closed => 'C', St::Open => 'O', St::HalfOpen => 'H' })).collect::<Vec<_>>().join("")
    }
    fn counters(&self) -> Vec<(&'static str, u64)> {
        vec![
            ("witness_opened", self.w.opened),
            ("witness_probe_admitted", self.w.probe_admitted),
            ("witness_probe_closed", self.w.probe_closed),
            ("witness_probe_reopened", self.w.probe_reopened),
            ("witness_probe_rolled_back_by_other_rule", self.w.probe_rolled_back),
            ("witness_stale_completion_in_half_open", self.w.stale_in_half_open),
            ("witness_window_expired_between_completions", self.w.window_expired),
            ("witness_blocked_while_open", self.w.blocked_while_open),
        ]
    }
}

pub fn configs(thorough: bool) -> Vec<Cfg> {
    let mut v = vec![];
    let mut k = 0u64;
    for strat in [Strat::ErrorCount, Strat::ErrorRatio, Strat::SlowRequestRatio] {
        // 1/3, 0.333 and 0.67: ratios of thirds, which differ from their two-decimal rounding
        let thresholds: Vec<f64> = if strat == Strat::ErrorCount { vec![1.0, 2.0, 2.5, 3.0] } else { vec![0.0, 0.49, 0.5, 0.51, 1.0, 1.0 / 3.0, 0.333, 0.67] };
        for min_request in 0..=4u64 {
            for &threshold in &thresholds {
                for buckets in [1u32, 2, 4, 3] {
                    for retry in [500u32, 2000] {
                        k += 1;
                        if !thorough && k % 7 != 0 {
                            continue;
                        }
                        v.push(Cfg { rules: vec![RuleCfg { strat, min_request, threshold, buckets, retry }], isolation: false, phase: [0, 1, 250, 499][(k % 4) as usize] });
                    }
                }
            }
        }
    }
    // two breakers (same and different strategy), and a breaker plus an isolation rule
    let r = |strat, min_request, threshold, buckets, retry| RuleCfg { strat, min_request, threshold, buckets, retry };
    let pairs = vec![
        (r(Strat::ErrorCount, 1, 1.0, 1, 500), r(Strat::ErrorCount, 2, 2.0, 2, 2000)),
        (r(Strat::ErrorCount, 1, 1.0, 1, 500), r(Strat::ErrorRatio, 2, 0.5, 1, 500)),
        (r(Strat::ErrorRatio, 1, 0.5, 2, 500), r(Strat::SlowRequestRatio, 1, 0.5, 1, 2000)),
        (r(Strat::SlowRequestRatio, 0, 1.0, 4, 500), r(Strat::ErrorCount, 0, 2.0, 1, 500)),
    ];
    for (a, b) in pairs {
        // both orders: the order in which the slot consults the breakers follows the rule set's
        // iteration order
        v.push(Cfg { rules: vec![a.clone(), b.clone()], isolation: false, phase: 250 });
        v.push(Cfg { rules: vec![b, a], isolation: false, phase: 0 });
    }
    for strat in [Strat::ErrorCount, Strat::ErrorRatio, Strat::SlowRequestRatio] {
        v.push(Cfg { rules: vec![r(strat, 1, if strat == Strat::ErrorCount { 1.0 } else { 0.5 }, 1, 500)], isolation: true, phase: 1 });
        v.push(Cfg { rules: vec![r(strat, 0, if strat == Strat::ErrorCount { 2.0 } else { 1.0 }, 2, 2000)], isolation: true, phase: 499 });
    }
    v
}

pub fn run(o: &Opts, stats: &mut Stats) -> Option<usize> {
    let cfgs = configs(o.thorough);
    let thorough = o.thorough;
    // canonical-state BFS on a subset of the configurations (deeper than the sequence explorer)
    if o.replay.is_none() {
        let (every, depth, cap) = if thorough { (6, 9, 3_000_000) } else { (30, 7, 1_000_000) };
        for (idx, c) in cfgs.iter().enumerate() {
            if !o.mine(idx) || idx % every != 0 {
                continue;
            }
            let mut s = C03::new(c);
            let cv = serde_json::json!({"cfg": crate::explore::cfg_value(c), "search": "bfs"});
            let ok = crate::explore::bfs(&mut s, &cv, depth, cap, stats);
            if !ok {
                for v in stats.violations.iter_mut() {
                    if v.config.get("search").is_some() {
                        v.config = crate::explore::cfg_value(c);
                    }
                }
            }
            if stats.need_restart {
                return Some(idx + 1);
            }
        }
    }
    run_configs(o, stats, &cfgs, |c, _| C03::new(c), &move |_c: &Cfg| if thorough { vec![Pass { depth: 8, max_dev: 4 }] } else { vec![Pass { depth: 7, max_dev: 3 }] })
}
