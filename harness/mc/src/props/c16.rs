//! C16 — circuit-breaker transitions are atomic under concurrency: one probe, one winner.
use crate::common::*;
use crate::sched::*;
use sentinel_core::base::EntryStrongPtr;
use sentinel_core::circuitbreaker as cb;
use sentinel_core::EntryBuilder;
use sentinel_verif_rt::clock;
use std::sync::{Arc, Mutex};

const RES: &str = "c16-res";

#[derive(Clone, Copy, Debug, PartialEq)]
enum St {
    Closed,
    Open,
    HalfOpen,
}
fn st(s: cb::State) -> St {
    match s {
        cb::State::Closed => St::Closed,
        cb::State::Open => St::Open,
        cb::State::HalfOpen => St::HalfOpen,
    }
}

type Log = Arc<Mutex<Vec<(String, St, St)>>>;
/// clock reading (ms) of every announced transition, parallel to the log of its `Rec`
static TIMES: Mutex<Vec<u64>> = Mutex::new(Vec::new());
/// The early-probe oracle is only meaningful where no other rule can reject a probe: a probe that
/// another rule rejects is rolled back to Open WITHOUT a new retry deadline (documented behaviour,
/// see C03), so the next request may probe again at once.
static EARLY_PROBE_ORACLE: std::sync::atomic::AtomicBool = std::sync::atomic::AtomicBool::new(true);
struct Rec(Log);
impl cb::StateChangeListener for Rec {
    fn on_transform_to_closed(&self, p: cb::State, r: Arc<cb::Rule>) {
        TIMES.lock().unwrap_or_else(|e| e.into_inner()).push(clock::get_ms());
        self.0.lock().unwrap().push((r.id.clone(), st(p), St::Closed));
    }
    fn on_transform_to_open(&self, p: cb::State, r: Arc<cb::Rule>, _s: Option<Arc<sentinel_core::base::Snapshot>>) {
        TIMES.lock().unwrap_or_else(|e| e.into_inner()).push(clock::get_ms());
        self.0.lock().unwrap().push((r.id.clone(), st(p), St::Open));
    }
    fn on_transform_to_half_open(&self, p: cb::State, r: Arc<cb::Rule>) {
        TIMES.lock().unwrap_or_else(|e| e.into_inner()).push(clock::get_ms());
        self.0.lock().unwrap().push((r.id.clone(), st(p), St::HalfOpen));
    }
}

fn rule(id: &str, strategy: cb::BreakerStrategy) -> Arc<cb::Rule> {
    let threshold = if strategy == cb::BreakerStrategy::ErrorCount { 1.0 } else { 0.5 };
    Arc::new(cb::Rule { id: id.into(), resource: RES.into(), strategy, retry_timeout_ms: 100, min_request_amount: 1, stat_interval_ms: 1000, max_allowed_rt_ms: 10, threshold, ..Default::default() })
}

fn build() -> Result<EntryStrongPtr, String> {
    EntryBuilder::new(RES.to_string()).build().map_err(|e| e.to_string())
}
/// complete `e` as a failure for the given strategy (error, or slow for the slow-request strategy;
/// the clock has been advanced past max_allowed_rt by the caller)
fn fail(e: &EntryStrongPtr) {
    e.set_err(sentinel_core::Error::msg("boom"));
    e.exit();
}

/// Every breaker's events must form a path of the machine starting at `from`, each transition
/// announced once, and the breaker's current state must be the end of that path.
fn check_paths(log: &Log, from: St) -> Vec<(String, St)> {
    let log = log.lock().unwrap().clone();
    let times = TIMES.lock().unwrap_or_else(|e| e.into_inner()).clone();
    let mut ends = vec![];
    for b in cb::get_breakers_of_resource(&RES.to_string()) {
        let id = b.bound_rule().id.clone();
        // a probe is elected only once the retry timeout of the CURRENT Open period has elapsed
        if times.len() == log.len() && EARLY_PROBE_ORACLE.load(std::sync::atomic::Ordering::SeqCst) {
            let mut opened_at: Option<u64> = None;
            for (k, (rid, _, n)) in log.iter().enumerate() {
                if rid != &id {
                    continue;
                }
                match n {
                    St::Open => opened_at = Some(times[k]),
                    St::HalfOpen => {
                        if let Some(t0) = opened_at {
                            let retry = b.bound_rule().retry_timeout_ms as u64;
                            if times[k] < t0 + retry {
                                panic!("ORACLE: early-probe: breaker {} went Open->HalfOpen at +{} ms although it (re-)opened at +{} ms and the retry timeout is {} ms; log {:?}", rid, times[k] - T0_MS, t0 - T0_MS, retry, log);
                            }
                        }
                    }
                    St::Closed => opened_at = None,
                }
            }
        }
        let mut cur = from;
        for (rid, p, n) in log.iter().filter(|e| e.0 == id) {
            if *p != cur {
                panic!("ORACLE: listener-path: breaker {} announced {:?}->{:?} but the previous announced state was {:?}; log {:?}", rid, p, n, cur, log);
            }
            let legal = matches!((p, n), (St::Closed, St::Open) | (St::Open, St::HalfOpen) | (St::HalfOpen, St::Open) | (St::HalfOpen, St::Closed));
            if !legal {
                panic!("ORACLE: illegal-edge: breaker {} announced {:?}->{:?}; log {:?}", rid, p, n, log);
            }
            cur = *n;
        }
        let now = st(b.current_state());
        if now != cur {
            panic!("ORACLE: state-vs-log: breaker {} is {:?} but the announced path ends in {:?}; log {:?}", id, now, cur, log);
        }
        ends.push((id, cur));
    }
    ends
}

fn setup(strats: &[cb::BreakerStrategy]) -> Log {
    clock::set_ms(T0_MS + 250);
    let log: Log = Arc::new(Mutex::new(vec![]));
    TIMES.lock().unwrap_or_else(|e| e.into_inner()).clear();
    EARLY_PROBE_ORACLE.store(strats.len() == 1, std::sync::atomic::Ordering::SeqCst);
    cb::register_state_change_listeners(vec![Arc::new(Rec(log.clone()))]);
    cb::load_rules(strats.iter().enumerate().map(|(i, s)| rule(&format!("b{}", i), *s)).collect());
    log
}
fn teardown(keep: Vec<EntryStrongPtr>) {
    for e in keep {
        e.exit();
    }
    cb::clear_rules();
    cb::clear_state_change_listeners();
}
/// drive every breaker to Open with one failing request (sequentially)
fn open_all() {
    let e = build().expect("closed breaker admits");
    clock::advance_ms(20);
    fail(&e);
}

/// (a) several completions that each would open the breaker
fn closed_to_open(strats: Vec<cb::BreakerStrategy>, n: usize) -> Body {
    Arc::new(move || {
        let log = setup(&strats);
        let entries: Vec<EntryStrongPtr> = (0..n).map(|_| build().expect("closed breaker admits")).collect();
        clock::advance_ms(20);
        let hs: Vec<_> = entries.into_iter().map(|e| shuttle::thread::spawn(move || fail(&e))).collect();
        for h in hs {
            h.join().unwrap();
        }
        let ends = check_paths(&log, St::Closed);
        let l = log.lock().unwrap().clone();
        for (id, end) in &ends {
            let opens = l.iter().filter(|e| &e.0 == id && e.2 == St::Open).count();
            if opens != 1 || *end != St::Open {
                panic!("ORACLE: one-winner: breaker {} opened {} times, ends {:?}; log {:?}", id, opens, end, l);
            }
        }
        outcome(format!("events={}", l.len()));
        teardown(vec![]);
    })
}

/// (b)/(d) several requests arriving after (or around) the retry timeout
fn open_to_half_open(strats: Vec<cb::BreakerStrategy>, n: usize, clock_task: bool) -> Body {
    Arc::new(move || {
        let log = setup(&strats);
        open_all();
        let deadline = clock::get_ms() + 100;
        if clock_task {
            clock::advance_ms(99);
        } else {
            clock::advance_ms(100);
        }
        let mut hs = vec![];
        for _ in 0..n {
            hs.push(shuttle::thread::spawn(move || {
                let r = build();
                let after = clock::get_ms();
                if r.is_ok() && after < deadline {
                    panic!("ORACLE: early-pass: a request passed an Open breaker {} ms before the retry timeout", deadline - after);
                }
                r.ok()
            }));
        }
        let ct = if clock_task { Some(shuttle::thread::spawn(|| clock::advance_ms(1))) } else { None };
        let rs: Vec<Option<EntryStrongPtr>> = hs.into_iter().map(|h| h.join().unwrap()).collect();
        if let Some(c) = ct {
            c.join().unwrap();
        }
        let oks = rs.iter().filter(|r| r.is_some()).count();
        let ends = check_paths(&log, St::Closed);
        let l = log.lock().unwrap().clone();
        // with one breaker: exactly one probe unless every request came before the deadline
        let probes_b0 = l.iter().filter(|e| e.0 == "b0" && e.2 == St::HalfOpen).count();
        if oks > 1 {
            panic!("ORACLE: two-probes: {} requests passed in one Half-Open phase; log {:?}", oks, l);
        }
        if !clock_task && strats.len() == 1 && (oks != 1 || probes_b0 != 1) {
            panic!("ORACLE: one-probe: {} requests passed, {} Open->HalfOpen transitions after the retry timeout; log {:?}", oks, probes_b0, l);
        }
        if strats.len() == 1 {
            // a passed request is the probe: the breaker must be Half-Open now
            let want = if oks == 1 { St::HalfOpen } else { St::Open };
            if ends[0].1 != want {
                panic!("ORACLE: probe-state: {} requests passed but breaker is {:?}; log {:?}", oks, ends[0].1, l);
            }
        }
        outcome(format!("oks={} events={}", oks, l.len()));
        // complete the probe successfully: every breaker that is Half-Open must close, once
        let keep: Vec<EntryStrongPtr> = rs.into_iter().flatten().collect();
        let had_probe = !keep.is_empty();
        teardown_probe(keep, &log, had_probe && strats.len() == 1);
    })
}
fn teardown_probe(keep: Vec<EntryStrongPtr>, log: &Log, expect_close: bool) {
    for e in keep {
        e.exit();
    }
    let ends = check_paths(log, St::Closed);
    if expect_close && ends[0].1 != St::Closed {
        panic!("ORACLE: probe-close: successful probe left the breaker {:?}; log {:?}", ends[0].1, log.lock().unwrap());
    }
    teardown(vec![]);
}

/// (c) probe completion racing with a new request and a stale completion
fn half_open_race(strategy: cb::BreakerStrategy, with_request: bool, with_stale: bool, probe_ok: bool) -> Body {
    Arc::new(move || {
        let log = setup(&[strategy]);
        let stale = build().expect("closed breaker admits");
        open_all();
        clock::advance_ms(100);
        let probe = build().expect("ORACLE: one-probe: retry timeout elapsed, the probe must pass");
        if !probe_ok {
            clock::advance_ms(20);
        }
        let mut hs = vec![];
        hs.push(shuttle::thread::spawn(move || {
            if probe_ok {
                probe.exit()
            } else {
                fail(&probe)
            }
            None
        }));
        if with_request {
            hs.push(shuttle::thread::spawn(move || build().ok()));
        }
        if with_stale {
            hs.push(shuttle::thread::spawn(move || {
                fail(&stale);
                None
            }));
        }
        let rs: Vec<Option<EntryStrongPtr>> = hs.into_iter().map(|h| h.join().unwrap()).collect();
        let ends = check_paths(&log, St::Closed);
        let l = log.lock().unwrap().clone();
        let passed = rs.iter().filter(|r| r.is_some()).count();
        let closed_once = l.iter().any(|e| e.1 == St::HalfOpen && e.2 == St::Closed);
        if passed > 0 && !closed_once {
            panic!("ORACLE: pass-while-not-closed: a request passed although the breaker never closed (second probe in one Half-Open phase or pass while Open); log {:?}", l);
        }
        let decided = l.iter().skip(2).filter(|e| e.1 == St::HalfOpen).count();
        if decided != 1 {
            panic!("ORACLE: probe-phase-decided-once: the Half-Open phase was left {} times; log {:?}", decided, l);
        }
        outcome(format!("end={:?} events={} passed={}", ends[0].1, l.len(), passed));
        teardown(rs.into_iter().flatten().collect());
    })
}

/// (e) a probe that another rule (isolation) rejects is rolled back to Open while a stale
/// completion (a request admitted while the breaker was Closed) decides the Half-Open phase
fn blocked_probe_race(strategy: cb::BreakerStrategy, stale_ok: bool, second_request: bool) -> Body {
    Arc::new(move || {
        let log = setup(&[strategy]);
        EARLY_PROBE_ORACLE.store(false, std::sync::atomic::Ordering::SeqCst);
        let stale = build().expect("closed breaker admits");
        open_all();
        // from now on the resource is full: one entry (the stale one) is in flight
        sentinel_core::isolation::load_rules(vec![Arc::new(sentinel_core::isolation::Rule { id: "iso".into(), resource: RES.into(), threshold: 1, ..Default::default() })]);
        clock::advance_ms(100);
        let mut hs = vec![];
        hs.push(shuttle::thread::spawn(move || build().ok()));
        if second_request {
            hs.push(shuttle::thread::spawn(move || build().ok()));
        }
        hs.push(shuttle::thread::spawn(move || {
            if stale_ok {
                stale.exit()
            } else {
                fail(&stale)
            }
            None
        }));
        let rs: Vec<Option<EntryStrongPtr>> = hs.into_iter().map(|h| h.join().unwrap()).collect();
        let ends = check_paths(&log, St::Closed);
        let l = log.lock().unwrap().clone();
        let passed = rs.iter().filter(|r| r.is_some()).count();
        // once the stale completion has CLOSED the breaker, further requests pass it legitimately
        // (and isolation's check-then-act may admit both of them): only without a close are two
        // passes two probes of one Half-Open phase
        let closed_once = l.iter().any(|e| e.1 == St::HalfOpen && e.2 == St::Closed);
        if passed > 1 && !closed_once {
            panic!("ORACLE: two-probes: {} requests passed; log {:?}", passed, l);
        }
        outcome(format!("end={:?} events={} passed={}", ends[0].1, l.len(), passed));
        sentinel_core::isolation::clear_rules();
        teardown(rs.into_iter().flatten().collect());
    })
}

/// (h) one breaker, Open, retry timeout elapsed, and a flow rule that rejects every entry: each
/// request elected as the probe is rejected by the flow rule and must be taken back (Half-Open ->
/// Open, announced); nobody passes; once the flow rule is gone the next request is the probe
fn probe_rejected_by_flow_rule(n: usize) -> Body {
    Arc::new(move || {
        let log = setup(&[cb::BreakerStrategy::ErrorCount]);
        EARLY_PROBE_ORACLE.store(false, std::sync::atomic::Ordering::SeqCst);
        open_all();
        sentinel_core::flow::load_rules(vec![Arc::new(sentinel_core::flow::Rule { id: "deny".into(), resource: RES.into(), threshold: 0.0, stat_interval_ms: 1000, ..Default::default() })]);
        clock::advance_ms(100);
        let hs: Vec<_> = (0..n).map(|_| shuttle::thread::spawn(move || build().is_ok() as usize)).collect();
        let passed: usize = hs.into_iter().map(|h| h.join().unwrap()).sum();
        let ends = check_paths(&log, St::Closed);
        let l = log.lock().unwrap().clone();
        if passed != 0 {
            panic!("ORACLE: pass-despite-flow-rule: {} request(s) passed a flow rule of threshold 0; log {:?}", passed, l);
        }
        if ends[0].1 != St::Open {
            panic!("ORACLE: probe-not-rolled-back: every request was rejected (by the flow rule), yet the breaker ends {:?} with no probe in flight; log {:?}", ends[0].1, l);
        }
        let probes = l.iter().filter(|e| e.2 == St::HalfOpen).count();
        let rollbacks = l.iter().filter(|e| e.1 == St::HalfOpen && e.2 == St::Open).count();
        if probes != rollbacks {
            panic!("ORACLE: probe-not-rolled-back: {} probe elections, {} roll-backs announced; log {:?}", probes, rollbacks, l);
        }
        sentinel_core::flow::clear_rules();
        // the resource recovers: the next request is the probe and closes the breaker
        match build() {
            Ok(e) => e.exit(),
            Err(_) => panic!("ORACLE: stuck-after-rollback: with the flow rule gone and the retry timeout elapsed the next request is still rejected; log {:?}", l),
        }
        if st(cb::get_breakers_of_resource(&RES.to_string())[0].current_state()) != St::Closed {
            panic!("ORACLE: stuck-after-rollback: the successful probe did not close the breaker");
        }
        outcome(format!("events={} probes={}", l.len(), probes));
        teardown(vec![]);
    })
}

/// (g) two breakers on the resource, both Open; the retry timeout of the first has elapsed, that of
/// the second has not: no request may pass, whichever breaker is consulted first
fn sibling_still_open(n: usize) -> Body {
    Arc::new(move || {
        clock::set_ms(T0_MS + 250);
        let log: Log = Arc::new(Mutex::new(vec![]));
        TIMES.lock().unwrap_or_else(|e| e.into_inner()).clear();
        EARLY_PROBE_ORACLE.store(false, std::sync::atomic::Ordering::SeqCst);
        cb::register_state_change_listeners(vec![Arc::new(Rec(log.clone()))]);
        let short = rule("b0", cb::BreakerStrategy::ErrorCount);
        let mut long = (*rule("b1", cb::BreakerStrategy::ErrorCount)).clone();
        long.retry_timeout_ms = 60_000;
        cb::load_rules(vec![short, Arc::new(long)]);
        open_all();
        clock::advance_ms(100);
        let hs: Vec<_> = (0..n).map(|_| shuttle::thread::spawn(move || build().is_ok() as usize)).collect();
        let passed: usize = hs.into_iter().map(|h| h.join().unwrap()).sum();
        let ends = check_paths(&log, St::Closed);
        let l = log.lock().unwrap().clone();
        if passed != 0 {
            panic!("ORACLE: pass-while-sibling-open: {} request(s) passed although breaker b1 is Open and its retry timeout (60 s) has not elapsed; log {:?}", passed, l);
        }
        if ends.iter().any(|(id, e)| id == "b1" && *e != St::Open) {
            panic!("ORACLE: sibling-state: breaker b1 left Open before its retry timeout; log {:?}", l);
        }
        // a probe that b0 elected was rejected by b1: b0 took it back (Half-Open -> Open)
        if ends.iter().any(|(id, e)| id == "b0" && *e != St::Open) {
            panic!("ORACLE: probe-not-rolled-back: every request was rejected (by breaker b1), yet breaker b0 ends {:?} with no probe in flight; log {:?}", ends.iter().find(|x| x.0 == "b0").unwrap().1, l);
        }
        outcome(format!("events={} passed={}", l.len(), passed));
        teardown(vec![]);
    })
}

/// (f) requests arriving after the retry timeout whose probes FAIL at once: the breaker re-opens
/// with a new deadline, and a request that had already read "Open, timeout elapsed" must not be
/// elected as a second probe of the new Open period
fn failing_probes(strategy: cb::BreakerStrategy, n: usize) -> Body {
    Arc::new(move || {
        let log = setup(&[strategy]);
        open_all();
        clock::advance_ms(100);
        let mut hs = vec![];
        for _ in 0..n {
            hs.push(shuttle::thread::spawn(move || match build() {
                Ok(e) => {
                    fail(&e);
                    1
                }
                Err(_) => 0,
            }));
        }
        let passed: usize = hs.into_iter().map(|h| h.join().unwrap()).sum();
        let ends = check_paths(&log, St::Closed);
        let l = log.lock().unwrap().clone();
        if passed != 1 {
            panic!("ORACLE: one-probe: {} requests passed after one retry timeout (each probe failed at once, the clock did not move); log {:?}", passed, l);
        }
        outcome(format!("end={:?} events={} passed={}", ends[0].1, l.len(), passed));
        teardown(vec![]);
    })
}

pub fn scenarios(thorough: bool) -> Vec<Scenario> {
    use cb::BreakerStrategy::*;
    let mut v = vec![];
    let b2 = if thorough { 3 } else { 2 };
    for s in [ErrorCount, ErrorRatio, SlowRequestRatio] {
        v.push(Scenario { name: format!("closed->open:{:?}:2-completions", s), bound: b2, cap: 0, body: closed_to_open(vec![s], 2) });
        v.push(Scenario { name: format!("open->halfopen:{:?}:2-requests", s), bound: b2, cap: 0, body: open_to_half_open(vec![s], 2, false) });
        v.push(Scenario { name: format!("open->halfopen:{:?}:2-requests+clock-reaches-deadline", s), bound: 2, cap: 0, body: open_to_half_open(vec![s], 2, true) });
        // quick: the 3-thread race at bound 2 for one strategy, bound 1 for the other two
        v.push(Scenario { name: format!("halfopen:{:?}:probe-ok||request||stale", s), bound: if thorough || s == ErrorCount { 2 } else { 1 }, cap: 0, body: half_open_race(s, true, true, true) });
        v.push(Scenario { name: format!("halfopen:{:?}:probe-fail||request", s), bound: b2, cap: 0, body: half_open_race(s, true, false, false) });
        v.push(Scenario { name: format!("halfopen:{:?}:probe-ok||stale", s), bound: b2, cap: 0, body: half_open_race(s, false, true, true) });
        if thorough {
            v.push(Scenario { name: format!("closed->open:{:?}:3-completions", s), bound: 2, cap: 0, body: closed_to_open(vec![s], 3) });
            v.push(Scenario { name: format!("open->halfopen:{:?}:3-requests", s), bound: 2, cap: 0, body: open_to_half_open(vec![s], 3, false) });
            v.push(Scenario { name: format!("halfopen:{:?}:probe-fail||request||stale", s), bound: 2, cap: 0, body: half_open_race(s, true, true, false) });
        }
    }
    // a sibling breaker that is still Open before its own retry timeout
    v.push(Scenario { name: "two-breakers:short-timeout-elapsed,long-not:2-requests".into(), bound: b2, cap: 0, body: sibling_still_open(2) });
    // (h) the elected probe is rejected by a flow rule
    v.push(Scenario { name: "probe-rejected-by-flow-rule:2-requests".into(), bound: b2, cap: 0, body: probe_rejected_by_flow_rule(2) });
    // probes that fail at once: no second probe in the new Open period
    v.push(Scenario { name: "open->halfopen:ErrorCount:2-requests-failing-at-once".into(), bound: b2, cap: 0, body: failing_probes(ErrorCount, 2) });
    if thorough {
        v.push(Scenario { name: "open->halfopen:ErrorRatio:2-requests-failing-at-once".into(), bound: 3, cap: 0, body: failing_probes(ErrorRatio, 2) });
        v.push(Scenario { name: "open->halfopen:ErrorCount:3-requests-failing-at-once".into(), bound: 2, cap: 0, body: failing_probes(ErrorCount, 3) });
    }
    // a probe rejected by another rule, racing with a stale completion
    for s in [ErrorCount, SlowRequestRatio] {
        if !thorough && s != ErrorCount {
            continue;
        }
        v.push(Scenario { name: format!("blocked-probe:{:?}:request||stale-ok", s), bound: b2, cap: 0, body: blocked_probe_race(s, true, false) });
        v.push(Scenario { name: format!("blocked-probe:{:?}:request||stale-fail", s), bound: b2, cap: 0, body: blocked_probe_race(s, false, false) });
        if thorough {
            v.push(Scenario { name: format!("blocked-probe:{:?}:2-requests||stale-ok", s), bound: 2, cap: 0, body: blocked_probe_race(s, true, true) });
        }
    }
    // two breakers on the resource
    v.push(Scenario { name: "closed->open:ErrorCount+ErrorRatio:2-completions".into(), bound: 2, cap: 0, body: closed_to_open(vec![ErrorCount, ErrorRatio], 2) });
    v.push(Scenario { name: "open->halfopen:ErrorCount+SlowRequestRatio:2-requests".into(), bound: 2, cap: 0, body: open_to_half_open(vec![ErrorCount, SlowRequestRatio], 2, false) });
    v
}

pub fn run(o: &Opts, stats: &mut Stats) -> Option<usize> {
    run_scenarios(o, stats, scenarios(o.thorough))
}
