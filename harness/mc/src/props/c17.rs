//! C17 — accepted configuration is usable and is the same for every thread.
use crate::common::*;
use crate::sut::*;
use sentinel_core::base::{MetricEvent, ReadStat, TrafficType};
use sentinel_core::config::ConfigEntity;
use sentinel_core::stat;
use sentinel_verif_rt::clock;
use serde::{Deserialize, Serialize};
use serde_json::json;
use std::sync::mpsc;

#[derive(Serialize, Deserialize, Clone, Debug)]
pub struct Cfg {
    pub sct: u32,
    pub ivt: u32,
    pub sc: u32,
    pub iv: u32,
    pub yaml: bool,
    /// 0: one initialisation, no cached clock; 1: an earlier initialisation with the cached clock,
    /// then this one without; 2: earlier without, this one with; 3: both with the cached clock
    #[serde(default)]
    pub cache: u8,
}

/// independent validity predicate: the default metric window (sc, iv) must be servable by the
/// global window (sct buckets over ivt ms)
pub fn acceptable(c: &Cfg) -> bool {
    c.iv > 0 && c.sc > 0 && c.iv % c.sc == 0 && c.ivt > 0 && c.sct > 0 && c.ivt % c.sct == 0 && c.ivt % c.iv == 0 && (c.iv / c.sc) % (c.ivt / c.sct) == 0
}

fn entity(c: &Cfg) -> ConfigEntity {
    let mut e = ConfigEntity::new();
    e.config.stat.sample_count_total = c.sct;
    e.config.stat.interval_ms_total = c.ivt;
    e.config.stat.sample_count = c.sc;
    e.config.stat.interval_ms = c.iv;
    // no background tasks but (when asked for) the cached clock: the harness owns time and system readings
    e.config.use_cache_time = c.cache >= 2;
    e.config.log.metric.flush_interval_sec = 0;
    e.config.stat.system.system_interval_ms = 0;
    e.config.stat.system.load_interval_ms = 0;
    e.config.stat.system.cpu_interval_ms = 0;
    e.config.stat.system.memory_interval_ms = 0;
    e
}

fn init(c: &Cfg, tag: &str) -> Result<(), String> {
    if c.yaml {
        let text = serde_yaml::to_string(&entity(c)).map_err(|e| e.to_string())?;
        let path = std::env::temp_dir().join(format!("c17-{}-{}.yaml", std::process::id(), tag));
        std::fs::write(&path, text).map_err(|e| e.to_string())?;
        let r = sentinel_core::init_with_config_file(path.to_string_lossy().to_string()).map_err(|e| e.to_string());
        let _ = std::fs::remove_file(&path);
        r
    } else {
        sentinel_core::init_with_config(entity(c)).map_err(|e| e.to_string())
    }
}

fn real_ms() -> u64 {
    std::time::SystemTime::now().duration_since(std::time::UNIX_EPOCH).unwrap().as_millis() as u64
}

/// With the harness clock switched off, the library's own clock (cached or not, whatever earlier
/// initialisations of the process asked for) must keep following real time: it reaches an instant
/// read from the system clock, and then a later one. A deadline of 20 s of real time stands for
/// "never" (a live clock needs about a millisecond).
fn live_clock_check() -> Result<(), String> {
    let saved = clock::get_ns();
    clock::set_ns(0);
    let mut res = Ok(());
    'outer: for round in 0..2 {
        let target = real_ms();
        let start = std::time::Instant::now();
        loop {
            let now = sentinel_core::utils::curr_time_millis();
            if now >= target {
                break;
            }
            if start.elapsed().as_secs() >= 20 {
                res = Err(format!("clock-frozen: after the accepted initialisation the library clock reads {} and has not reached the system time {} within 20 s (round {})", now, target, round));
                break 'outer;
            }
            std::thread::sleep(std::time::Duration::from_millis(1));
        }
        std::thread::sleep(std::time::Duration::from_millis(3));
    }
    clock::set_ns(saved);
    res
}

/// Touch a brand-new resource on the calling thread and report the geometry of its node, by the
/// accessor and by behaviour: a token recorded at an aligned instant t is still counted at
/// t + W - 1 and no longer at t + W (W = read window), and a second token one inner bucket later
/// lands in another bucket.
fn probe(name: &str) -> Result<(u32, u32, u32, u32, u64, f64), String> {
    let r = std::panic::catch_unwind(|| {
        let base = T0_MS + 4_200_000;
        clock::set_ms(base);
        let e = match build(name, TrafficType::Outbound, 1) {
            Built::Ok(e) => e,
            Built::Blocked(_, t) => return Err(format!("entry-blocked: {}", t)),
        };
        e.exit();
        let node = stat::get_resource_node(&name.to_string()).ok_or("no-node: no statistics node after an entry".to_string())?;
        let g = node.verif_geometry();
        // the per-second rate of the one token just recorded: 1 / (read window in seconds)
        let rate = node.qps(MetricEvent::Pass);
        // behavioural window length: first instant at which the token is no longer counted
        let mut w = 0u64;
        for d in 1..=60_001u64 {
            clock::set_ms(base + d);
            if node.sum(MetricEvent::Pass) == 0 {
                w = d;
                break;
            }
        }
        clock::set_ms(base);
        Ok((g.0, g.1, g.2, g.3, w, rate))
    });
    match r {
        Ok(x) => x,
        Err(e) => Err(format!("panic@{}: {}", last_panic_loc(), panic_msg(e).chars().take(160).collect::<String>())),
    }
}

fn expect_geometry(c: &Cfg, who: &str, got: Result<(u32, u32, u32, u32, u64, f64), String>) -> Result<(), String> {
    let (a, b, s, i, w, rate) = got.map_err(|e| format!("{}: on {}", e, who))?;
    if (a, b, s, i) != (c.sct, c.ivt, c.sc, c.iv) {
        return Err(format!("geometry-differs: {} sees a node of geometry ({} buckets / {} ms, default window {} / {} ms), the accepted configuration says ({} / {}, {} / {})", who, a, b, s, i, c.sct, c.ivt, c.sc, c.iv));
    }
    let want_rate = 1000.0 / c.iv as f64;
    if (rate - want_rate).abs() > 1e-9 {
        return Err(format!("rate-differs: {}: one token in a read window of {} ms reads as {} per second, expected {}", who, c.iv, rate, want_rate));
    }
    if w != c.iv as u64 {
        return Err(format!("window-behaviour: {}: a token recorded at an aligned instant disappears after {} ms, configured read window {} ms", who, w, c.iv));
    }
    Ok(())
}

/// One configuration, on a fresh "initialising" OS thread.
pub fn run_cfg(c: &Cfg, idx: usize) -> Result<String, String> {
    let c = c.clone();
    let h = std::thread::spawn(move || -> Result<String, String> {
        // a worker thread that exists BEFORE initialisation
        let (tx, rx) = mpsc::channel::<String>();
        let (rtx, rrx) = mpsc::channel();
        let early = std::thread::spawn(move || {
            while let Ok(name) = rx.recv() {
                let _ = rtx.send(probe(&name));
            }
        });
        if c.cache == 1 || c.cache == 3 {
            // an earlier initialisation of the same process: default geometry, cached clock
            let mut e = entity(&Cfg { sct: 20, ivt: 10000, sc: 2, iv: 1000, yaml: false, cache: 0 });
            e.config.use_cache_time = true;
            sentinel_core::init_with_config(e).map_err(|e| format!("rejected-servable: the default configuration with the cached clock: {}", e))?;
        } else if c.cache == 2 {
            sentinel_core::init_with_config(entity(&Cfg { sct: 20, ivt: 10000, sc: 2, iv: 1000, yaml: false, cache: 0 })).map_err(|e| format!("rejected-servable: the default configuration: {}", e))?;
        }
        let before = probe(&format!("c17-before-{}", idx))?;
        // the early thread has USED the configuration in effect before this initialisation (it
        // created a node under it), as a worker of a long-running process would have
        tx.send(format!("c17-early-pre-{}", idx)).unwrap();
        let early_before = rrx.recv().map_err(|_| "panic: early thread died".to_string())??;
        if early_before != before {
            return Err(format!("threads-disagree-before: the initialising thread sees geometry {:?}, a thread spawned just now {:?}", before, early_before));
        }
        let r = init(&c, &idx.to_string());
        let want = acceptable(&c);
        let verdict = match (r, want) {
            (Ok(()), false) => Err(format!("accepted-unservable: configuration ({} / {} ms, {} / {} ms) cannot be served but initialisation succeeded", c.sct, c.ivt, c.sc, c.iv)),
            (Err(e), true) => Err(format!("rejected-servable: servable configuration ({} / {} ms, {} / {} ms) rejected: {}", c.sct, c.ivt, c.sc, c.iv, e)),
            (Err(_), false) => {
                // the previous configuration stays in effect
                let after = probe(&format!("c17-rejected-{}", idx))?;
                if after != before {
                    Err(format!("rejected-but-changed: geometry {:?} before the rejected initialisation, {:?} after", before, after))
                } else {
                    Ok("rejected".to_string())
                }
            }
            (Ok(()), true) => {
                expect_geometry(&c, "the initialising thread", probe(&format!("c17-init-{}", idx)))?;
                live_clock_check()?;
                let name = format!("c17-late-{}", idx);
                let late = std::thread::spawn(move || probe(&name)).join().map_err(|_| "panic: late thread".to_string())?;
                expect_geometry(&c, "a thread spawned after initialisation", late)?;
                tx.send(format!("c17-early-{}", idx)).unwrap();
                let e = rrx.recv().map_err(|_| "panic: early thread died".to_string())?;
                expect_geometry(&c, "a thread spawned before initialisation", e)?;
                Ok("accepted".to_string())
            }
        };
        drop(tx);
        let _ = early.join();
        verdict
    });
    h.join().map_err(|_| "panic: initialising thread".to_string())?
}

pub fn configs(thorough: bool) -> Vec<Cfg> {
    let mut v = vec![];
    let mut k = 0usize;
    let mut na = 0usize;
    for sct in [20u32, 0, 1, 2, 3, 4] {
        for ivt in [10000u32, 0, 500, 1000, 3000] {
            for sc in [2u32, 0, 1, 3, 4] {
                for iv in [1000u32, 0, 250, 500, 1500, 2000, 10000] {
                    for yaml in [false, true] {
                        k += 1;
                        let mut c = Cfg { sct, ivt, sc, iv, yaml, cache: 0 };
                        if !thorough && !acceptable(&c) && k % 4 != 0 {
                            continue;
                        }
                        if acceptable(&c) {
                            // the cached clock, and what an earlier initialisation left behind
                            if thorough {
                                for cache in 1..4u8 {
                                    v.push(Cfg { cache, ..c.clone() });
                                }
                            } else {
                                na += 1;
                                c.cache = (na % 4) as u8;
                            }
                        }
                        v.push(c);
                    }
                }
            }
        }
    }
    v
}

/// A deployment may export SENTINEL_CONFIG_FILE_PATH (used when no file is named explicitly). It is
/// set here, pointing at a valid file holding the DEFAULT configuration, for every initialisation
/// of this process: a file named explicitly (and an entity) must still be what takes effect.
fn export_default_config_file() -> std::path::PathBuf {
    let path = std::path::PathBuf::from(format!("{}/../tmp/c17-env-{}.yaml", env!("CARGO_MANIFEST_DIR"), std::process::id()));
    let _ = std::fs::create_dir_all(path.parent().unwrap());
    let text = serde_yaml::to_string(&sentinel_core::config::ConfigEntity::new()).unwrap();
    std::fs::write(&path, text).unwrap();
    std::env::set_var("SENTINEL_CONFIG_FILE_PATH", &path);
    path
}

pub fn run(o: &Opts, stats: &mut Stats) -> Option<usize> {
    let env_file = export_default_config_file();
    let r = run_inner(o, stats);
    let _ = std::fs::remove_file(env_file);
    r
}

fn run_inner(o: &Opts, stats: &mut Stats) -> Option<usize> {
    if let Some(path) = &o.replay {
        let v: serde_json::Value = serde_json::from_str(&std::fs::read_to_string(path).unwrap()).unwrap();
        let cfg: Cfg = serde_json::from_value(v["config"].clone()).unwrap();
        match run_cfg(&cfg, 0) {
            Err(why) => {
                println!("REPLAY-RESULT: violation: {}", why);
                stats.violations.push(Violation { sig: why.split(':').next().unwrap().into(), config: v["config"].clone(), trace: json!({}), why });
            }
            Ok(o) => println!("REPLAY-RESULT: no violation ({})", o),
        }
        return None;
    }
    for (i, c) in configs(o.thorough).iter().enumerate() {
        if !o.mine(i) {
            continue;
        }
        set_now_cfg(serde_json::to_string(c).unwrap());
        stats.configs += 1;
        stats.executions += 1;
        stats.states.insert(i as u64);
        match run_cfg(c, i) {
            Ok(outcome) => {
                stats.transitions += if outcome == "accepted" { 4 } else { 2 };
                if outcome == "accepted" {
                    stats.nontrivial += 1;
                }
                stats.outcome(&format!("{}-{}", outcome, if c.yaml { "yaml" } else { "entity" }));
                if stats.samples.len() < 3 && outcome == "accepted" {
                    stats.sample(json!({"config": c, "outcome": outcome, "threads_probed": ["initialising", "spawned after init", "spawned before init"]}));
                }
            }
            Err(why) => {
                if stats.violations.len() < 25 {
                    stats.violations.push(Violation { sig: why.split(':').next().unwrap().into(), config: serde_json::to_value(c).unwrap(), trace: json!({}), why });
                }
            }
        }
    }
    if stats.samples.is_empty() {
        stats.sample(json!({"config": configs(o.thorough)[0]}));
    }
    None
}
