use crate::common::*;
use crate::explore::{self, Subject};
use serde::{de::DeserializeOwned, Serialize};

pub mod c01;
pub mod c02;
pub mod c03;
pub mod c04;
pub mod c05;
pub mod c06;
pub mod c07;
pub mod c08;
pub mod c08s;
pub mod c09;
pub mod c10;
pub mod c10f;
pub mod c10v;
pub mod c11;
pub mod c12;
pub mod c13;
pub mod c17;
pub mod c18;
pub mod c19;
pub mod c20;
#[cfg(feature = "sched")]
pub mod c14;
#[cfg(feature = "sched")]
pub mod c15;
#[cfg(feature = "sched")]
pub mod c16;
#[cfg(feature = "sched")]
pub mod c20s;
#[cfg(feature = "sched")]
pub mod reload_atomic;

pub fn run(id: &str, o: &Opts, stats: &mut Stats) -> Option<usize> {
    match id {
        "C01" => c01::run(o, stats),
        "C02" => c02::run(o, stats),
        "C03" => c03::run(o, stats),
        "C04" => c04::run(o, stats),
        #[cfg(not(feature = "sched"))]
        "C05" => c05::run(o, stats),
        // the schedule-explorer build runs the second part: a kept rule stays in force during an update
        #[cfg(feature = "sched")]
        "C05" => reload_atomic::run(&[reload_atomic::Fam::Iso], &reload_atomic::REPLACEMENTS, o, stats),
        "C06" => c06::run(o, stats),
        "C07" => c07::run(o, stats),
        "C08" => c08::run(o, stats),
        #[cfg(not(feature = "sched"))]
        "C09" => c09::run(o, stats),
        // the schedule-explorer build runs the second part: a kept rule stays in force during an update
        #[cfg(feature = "sched")]
        "C09" => reload_atomic::run(&[reload_atomic::Fam::Sys], &reload_atomic::REPLACEMENTS, o, stats),
        #[cfg(not(feature = "sched"))]
        "C10" => c10::run(o, stats),
        // the schedule-explorer build runs the second part: an append never disables an active rule
        #[cfg(feature = "sched")]
        "C10" => reload_atomic::run(&reload_atomic::ALL_FAMS, &[reload_atomic::Upd::Append], o, stats),
        #[cfg(not(feature = "sched"))]
        "C11" => c11::run(o, stats),
        // the schedule-explorer build runs the second part: a kept rule stays in force during an update
        #[cfg(feature = "sched")]
        "C11" => reload_atomic::run(&[reload_atomic::Fam::Flow, reload_atomic::Fam::Hotspot, reload_atomic::Fam::Cb], &reload_atomic::REPLACEMENTS, o, stats),
        "C12" => c12::run(o, stats),
        "C13" => c13::run(o, stats),
        "C17" => c17::run(o, stats),
        "C18" => c18::run(o, stats),
        "C19" => c19::run(o, stats),
        #[cfg(not(feature = "sched"))]
        "C20" => c20::run(o, stats),
        // the schedule-explorer build runs the concurrent part of C20
        #[cfg(feature = "sched")]
        "C20" => c20s::run(o, stats),
        #[cfg(feature = "sched")]
        "C14" => c14::run(o, stats),
        #[cfg(feature = "sched")]
        "C15" => c15::run(o, stats),
        #[cfg(feature = "sched")]
        "C16" => c16::run(o, stats),
        _ => {
            eprintln!("unknown property {}", id);
            std::process::exit(2)
        }
    }
}

/// One exploration pass over a configuration.
pub struct Pass {
    pub depth: usize,
    pub max_dev: usize,
}

/// Explore every configuration owned by this shard; handles `--replay`.
/// Returns Some(next index) when the process must be restarted (a panic may have poisoned globals).
pub fn run_configs<C, S, F>(o: &Opts, stats: &mut Stats, configs: &[C], mk: F, passes: &dyn Fn(&C) -> Vec<Pass>) -> Option<usize>
where
    C: Serialize + DeserializeOwned + Clone,
    S: Subject,
    F: Fn(&C, usize) -> S,
{
    if let Some(path) = &o.replay {
        let v: serde_json::Value = serde_json::from_str(&std::fs::read_to_string(path).expect("replay file")).expect("replay json");
        let cfg: C = serde_json::from_value(v["config"].clone()).expect("replay config");
        let pass = v["config_pass"].as_u64().unwrap_or(0) as usize;
        let choices: Vec<u8> = serde_json::from_value(v["trace"]["choices"].clone()).expect("choices");
        let mut s = mk(&cfg, pass);
        println!("replaying {} steps on config {}", choices.len(), v["config"]);
        match explore::replay(&mut s, &choices) {
            Some(why) => {
                println!("REPLAY-RESULT: violation: {}", why);
                stats.violations.push(Violation { sig: s.sig(&why), config: v["config"].clone(), trace: v["trace"].clone(), why });
            }
            None => println!("REPLAY-RESULT: no violation"),
        }
        return None;
    }
    for (idx, c) in configs.iter().enumerate() {
        if !o.mine(idx) {
            continue;
        }
        let cv = explore::cfg_value(c);
        for (pi, p) in passes(c).iter().enumerate() {
            let mut s = mk(c, pi);
            let mut cv2 = cv.clone();
            if pi > 0 {
                cv2 = serde_json::json!({"cfg": cv, "pass": pi});
            }
            let before = stats.violations.len();
            let ok = explore::explore(&mut s, &cv2, p.depth, p.max_dev, stats);
            if !ok {
                for v in stats.violations[before..].iter_mut() {
                    v.config = cv.clone();
                    v.trace["config_pass"] = serde_json::json!(pi);
                }
            }
            if stats.need_restart {
                return Some(idx + 1);
            }
            if !ok {
                break;
            }
        }
        if stats.violations.len() >= 25 {
            stats.caps_hit.push("25 violations recorded in this shard; remaining configurations skipped".into());
            return None;
        }
    }
    None
}
