//! C01 — reject-type flow control admits a request iff it fits every rule's window.
use super::{run_configs, Pass};
use crate::common::*;
use crate::explore::Subject;
use crate::model::window::*;
use crate::sut::*;
use sentinel_core::base::{EntryStrongPtr, TrafficType};
use sentinel_core::flow;
use serde::{Deserialize, Serialize};
use std::sync::Arc;

#[derive(Serialize, Deserialize, Clone, Debug)]
pub struct Cfg {
    /// (threshold, stat_interval_ms)
    pub rules: Vec<(f64, u32)>,
    pub phase: u64,
    /// a copy of the rules with every threshold + 1 is loaded first (no traffic in between): the
    /// decisions must be those of a single load
    #[serde(default)]
    pub retuned: bool,
    /// resource type the entries declare (0 Common, 1 Web, 2 RPC); the rules are loaded first, so the
    /// statistics node exists (as Common) before the first entry
    #[serde(default)]
    pub rtype: u8,
}

#[derive(Clone, Debug)]
pub enum Op {
    Arrive { gap: u64, batch: u32 },
    Exit(usize),
}

struct RuleRef {
    id: String,
    thr: f64,
    ring: Ring,
    w: u64,
}

/// Independent reading of the documented window selection (default config: 20 x 500 ms global
/// ring, 2 x 500 ms default metric).
fn window_of(iv: u32) -> (Ring, u64) {
    let iv = iv as u64;
    if iv == 0 || iv == 1000 {
        return (Ring { n: 20, len: 500 }, 1000);
    }
    let (sc, len) = if iv > 500 && iv < 10000 && iv % 500 == 0 { (iv / 500, 500) } else { (1, iv) };
    let reuse = 10000 % iv == 0 && len % 500 == 0;
    if reuse {
        (Ring { n: 20, len: 500 }, iv)
    } else {
        (Ring { n: sc, len }, iv)
    }
}

pub struct C01 {
    cfg: Cfg,
    reduced: bool,
    rules: Vec<RuleRef>,
    gaps: Vec<u64>,
    log: EventLog,
    open: Vec<EntryStrongPtr>,
    decisions: String,
    rolled: bool,
    last_arrival: Option<u64>,
}

const RES: &str = "c01-res";

impl C01 {
    pub fn new(cfg: &Cfg, reduced: bool) -> Self {
        let rules: Vec<RuleRef> = cfg
            .rules
            .iter()
            .enumerate()
            .map(|(i, (thr, iv))| {
                let (ring, w) = window_of(*iv);
                RuleRef { id: format!("r{}", i), thr: *thr, ring, w }
            })
            .collect();
        let mut gaps = vec![0u64, 1];
        for r in &rules {
            let l = r.ring.len;
            for g in [l - 1, l, l + 1, r.w - l, r.w - 1, r.w, r.w + 1, 3 * r.w] {
                gaps.push(g);
            }
        }
        gaps.sort();
        gaps.dedup();
        C01 { cfg: cfg.clone(), reduced, rules, gaps, log: EventLog::default(), open: vec![], decisions: String::new(), rolled: false, last_arrival: None }
    }
    fn fits(&self, r: &RuleRef, t: u64, n: u32) -> bool {
        let cur = self.log.sum(r.ring, r.w, t, Kind::Pass) as f64;
        !(cur + n as f64 > r.thr)
    }
}

impl Subject for C01 {
    type Op = Op;
    fn reset(&mut self) {
        for e in self.open.drain(..) {
            e.exit();
        }
        reset_world(T0_MS + self.cfg.phase);
        let mk = |bump: f64| -> Vec<Arc<flow::Rule>> {
            self.cfg
                .rules
                .iter()
                .enumerate()
                .map(|(i, (thr, iv))| {
                    Arc::new(flow::Rule {
                        id: format!("r{}", i),
                        resource: RES.into(),
                        threshold: *thr + bump,
                        stat_interval_ms: *iv,
                        calculate_strategy: flow::CalculateStrategy::Direct,
                        control_strategy: flow::ControlStrategy::Reject,
                        ..Default::default()
                    })
                })
                .collect()
        };
        if self.cfg.retuned {
            flow::load_rules(mk(1.0));
        }
        flow::load_rules(mk(0.0));
        set_entry_resource_type(self.cfg.rtype);
        self.log.clear();
        self.decisions.clear();
        self.rolled = false;
        self.last_arrival = None;
    }
    fn enabled(&self) -> Vec<Op> {
        let mut v = vec![];
        if self.reduced {
            for g in &self.gaps {
                v.push(Op::Arrive { gap: *g, batch: 1 });
            }
            for b in [0, 2, 3] {
                v.push(Op::Arrive { gap: 0, batch: b });
            }
        } else {
            for b in [1, 0, 2, 3] {
                for g in &self.gaps {
                    v.push(Op::Arrive { gap: *g, batch: b });
                }
            }
        }
        for i in 0..self.open.len().min(3) {
            v.push(Op::Exit(i));
        }
        v
    }
    fn step(&mut self, op: &Op) -> Result<(), String> {
        match op {
            Op::Exit(i) => {
                let e = self.open.remove(*i);
                e.exit();
                Ok(())
            }
            Op::Arrive { gap, batch } => {
                advance_ms(*gap);
                let t = now_ms();
                if let Some(p) = self.last_arrival {
                    if self.rules.iter().any(|r| p / r.ring.len != t / r.ring.len) {
                        self.rolled = true;
                    }
                }
                self.last_arrival = Some(t);
                let misfits: Vec<&RuleRef> = self.rules.iter().filter(|r| !self.fits(r, t, *batch)).collect();
                let expect_admit = misfits.is_empty();
                match build(RES, TrafficType::Outbound, *batch) {
                    Built::Ok(e) => {
                        if !expect_admit {
                            return Err(format!(
                                "admitted-but-does-not-fit: t=+{} batch={} rule {} (thr {}, window {} ms) already holds {}",
                                t - T0_MS,
                                batch,
                                misfits[0].id,
                                misfits[0].thr,
                                misfits[0].w,
                                self.log.sum(misfits[0].ring, misfits[0].w, t, Kind::Pass)
                            ));
                        }
                        self.log.record(t, Kind::Pass, *batch as u64);
                        self.open.push(e);
                        self.decisions.push('A');
                    }
                    Built::Blocked(b, text) => {
                        if expect_admit {
                            return Err(format!("rejected-but-fits: t=+{} batch={} blocked with {}", t - T0_MS, batch, text.chars().take(160).collect::<String>()));
                        }
                        if b.block_type != "Flow" {
                            return Err(format!("wrong-block-type: {} (expected Flow)", b.block_type));
                        }
                        match &b.rule_id {
                            Some(id) if misfits.iter().any(|r| &r.id == id) => {}
                            other => return Err(format!("wrong-rule-named: {:?}, rules that do not fit: {:?}", other, misfits.iter().map(|r| &r.id).collect::<Vec<_>>())),
                        }
                        self.decisions.push('R');
                    }
                }
                Ok(())
            }
        }
    }
    fn finish(&mut self) -> Result<(), String> {
        // history invariant, independent of the decision formula: tokens admitted in any
        // bucket-aligned window never exceed the threshold
        for r in &self.rules {
            for (tau, _, _) in &self.log.events {
                let b = tau - tau % r.ring.len;
                for k in 0..(r.w / r.ring.len) {
                    let e = b + k * r.ring.len;
                    let s = self.log.sum(r.ring, r.w, e, Kind::Pass);
                    if s as f64 > r.thr {
                        return Err(format!("window-overflow: rule {} thr {} window ending at bucket +{} holds {}", r.id, r.thr, e - T0_MS, s));
                    }
                }
            }
        }
        let mut got: Vec<String> = flow::get_rules_of_resource(&RES.to_string()).iter().map(|r| r.id.clone()).collect();
        got.sort();
        let mut want: Vec<String> = self.rules.iter().map(|r| r.id.clone()).collect();
        want.sort();
        if got != want {
            return Err(format!("rules-reported: {:?} loaded {:?}", got, want));
        }
        Ok(())
    }
    fn nontrivial(&self) -> bool {
        self.rolled && self.decisions.contains('A') && self.decisions.contains('R')
    }
    fn outcome(&self) -> String {
        self.decisions.clone()
    }
}

pub const THRESHOLDS: [f64; 6] = [0.0, 0.5, 1.0, 2.0, 2.5, 3.0];
// 1200 and 1700: above one bucket of the global ring but not a multiple of it (a private single-bucket window)
pub const INTERVALS: [u32; 14] = [0, 1000, 500, 2000, 2500, 5000, 10000, 300, 700, 1500, 3000, 20000, 1200, 1700];

pub fn configs(thorough: bool) -> Vec<Cfg> {
    let mut v = vec![];
    let phases: &[u64] = if thorough { &[0, 1, 250, 499] } else { &[0, 499] };
    for iv in INTERVALS {
        for thr in THRESHOLDS {
            for ph in phases {
                v.push(Cfg { rules: vec![(thr, iv)], phase: *ph, retuned: false, rtype: 0 });
            }
        }
    }
    // entries that declare another resource type than the node was created with
    for (i, iv) in INTERVALS.iter().enumerate() {
        for rtype in [1u8, 2] {
            if !thorough && (i + rtype as usize) % 2 != 0 {
                continue;
            }
            v.push(Cfg { rules: vec![(2.0, *iv)], phase: [0, 499][i % 2], retuned: false, rtype });
        }
    }
    // pairs of distinct interval classes, thresholds {1, 2.5} / {2, 3}
    let mut k = 0u64;
    for (i, a) in INTERVALS.iter().enumerate() {
        for b in INTERVALS.iter().skip(i + 1) {
            for (ta, tb) in [(1.0, 2.5), (2.5, 1.0), (2.0, 3.0), (3.0, 2.0)] {
                k += 1;
                if !thorough && k % 7 != 0 {
                    continue;
                }
                v.push(Cfg { rules: vec![(ta, *a), (tb, *b)], phase: [0, 250, 499, 1][(k % 4) as usize], retuned: k % 2 == 0, rtype: 0 });
            }
        }
    }
    // two rules on the SAME statistic interval (they may share or reuse one statistic), loaded
    // once and loaded in two steps
    for (i, iv) in INTERVALS.iter().enumerate() {
        for retuned in [false, true] {
            if !thorough && (i + retuned as usize) % 2 != 0 {
                continue;
            }
            v.push(Cfg { rules: vec![(2.0, *iv), (3.0, *iv)], phase: [0, 499][i % 2], retuned, rtype: 0 });
        }
    }
    if thorough {
        // triples
        let mut k = 0u64;
        for (i, a) in INTERVALS.iter().enumerate() {
            for (j, b) in INTERVALS.iter().enumerate().skip(i + 1) {
                for c in INTERVALS.iter().skip(j + 1) {
                    k += 1;
                    if k % 2 != 0 {
                        continue;
                    }
                    v.push(Cfg { rules: vec![(2.0, *a), (3.0, *b), (1.0, *c)], phase: [0, 250, 499, 1][(k % 4) as usize], retuned: k % 4 == 0, rtype: 0 });
                }
            }
        }
    }
    v
}

pub fn run(o: &Opts, stats: &mut Stats) -> Option<usize> {
    let cfgs = configs(o.thorough);
    let thorough = o.thorough;
    run_configs(
        o,
        stats,
        &cfgs,
        |c, pass| C01::new(c, pass == 1),
        &move |c: &Cfg| {
            if thorough {
                if c.rules.len() == 1 {
                    vec![Pass { depth: 6, max_dev: 2 }, Pass { depth: 6, max_dev: 3 }]
                } else {
                    vec![Pass { depth: 5, max_dev: 2 }, Pass { depth: 6, max_dev: 3 }]
                }
            } else {
                vec![Pass { depth: 5, max_dev: 2 }]
            }
        },
    )
}
