//! C05 — concurrency caps (isolation, hotspot concurrency) hold and are reported rightly.
use super::{run_configs, Pass};
use crate::common::*;
use crate::explore::Subject;
use crate::sut::*;
use sentinel_core::base::{ConcurrencyStat, EntryStrongPtr, ParamsList, ParamsMap, TrafficType};
use sentinel_core::{hotspot, isolation, stat};
use serde::{Deserialize, Serialize};
use std::collections::{BTreeMap, HashMap};
use std::sync::Arc;

#[derive(Serialize, Deserialize, Clone, Debug)]
pub enum Cfg {
    Isolation { thresholds: Vec<u32> },
    Hotspot { threshold: u64, index: isize, keyed: bool, overrides: Vec<(String, u64)>, capacity: usize },
}

#[derive(Clone, Debug)]
pub enum Op {
    Build { batch: u32, value: &'static str, with_param: bool },
    Exit(usize),
    /// isolation: re-load the rules with every threshold lowered by one more (not below 1) while
    /// entries are in flight - the in-flight count may then already exceed the new threshold
    Lower,
    /// isolation: withdraw all rules (an empty load) and load the original rules again, same ids
    Restore,
    /// hotspot: re-load the concurrency rule with its threshold raised by one more while entries
    /// are in flight (the per-value overrides stay): what is in flight stays counted
    Raise,
}

const RES: &str = "c05-res";

struct Open {
    e: EntryStrongPtr,
    value: Option<String>,
}

pub struct C05 {
    cfg: Cfg,
    open: Vec<Open>,
    admits: u32,
    rejects: u32,
    ambiguous: u64,
    not_applied: u64,
    freed_reuse: u64,
    just_exited: bool,
    lowered: u32,
    raised: u64,
    over_cap_after_lowering: u64,
    restored: u32,
}

impl C05 {
    pub fn new(cfg: &Cfg) -> Self {
        C05 { cfg: cfg.clone(), open: vec![], admits: 0, rejects: 0, ambiguous: 0, not_applied: 0, freed_reuse: 0, just_exited: false, lowered: 0, raised: 0, over_cap_after_lowering: 0, restored: 0 }
    }
    fn inflight(&self) -> u32 {
        self.open.len() as u32
    }
    fn inflight_of(&self, v: &str) -> u64 {
        self.open.iter().filter(|o| o.value.as_deref() == Some(v)).count() as u64
    }
    /// how the harness conveys `value` for this configuration, and the value the rule must extract
    fn shape(&self, value: &str, with_param: bool) -> (Option<ParamsList>, Option<ParamsMap>, Option<String>) {
        match &self.cfg {
            Cfg::Isolation { .. } => (None, None, None),
            Cfg::Hotspot { index, keyed, .. } => {
                if *keyed {
                    let mut m: ParamsMap = HashMap::new();
                    if with_param {
                        m.insert("k".into(), value.to_string());
                        (None, Some(m), Some(value.to_string()))
                    } else {
                        m.insert("other".into(), value.to_string());
                        (None, Some(m), None)
                    }
                } else if !with_param {
                    (None, None, None)
                } else {
                    // two positional arguments; the value sits where a valid index points
                    let (args, extracted) = match *index {
                        0 => (vec![value.to_string(), "pad".to_string()], Some(value.to_string())),
                        1 | -1 => (vec!["pad".to_string(), value.to_string()], Some(value.to_string())),
                        -2 => (vec![value.to_string(), "pad".to_string()], Some(value.to_string())),
                        _ => (vec!["pad".to_string(), value.to_string()], None), // -3, 5: outside the list
                    };
                    (Some(args), None, extracted)
                }
            }
        }
    }
}

impl C05 {
    fn eff(&self, t: u32) -> u32 {
        t.saturating_sub(self.lowered).max(1)
    }
    fn load_isolation(&self) {
        if let Cfg::Isolation { thresholds } = &self.cfg {
            isolation::load_rules(thresholds.iter().enumerate().map(|(i, t)| Arc::new(isolation::Rule { id: format!("i{}", i), resource: RES.into(), threshold: self.eff(*t), ..Default::default() })).collect());
        }
    }
}

impl Subject for C05 {
    type Op = Op;
    fn reset(&mut self) {
        for o in self.open.drain(..) {
            o.e.exit();
        }
        reset_world(T0_MS);
        self.admits = 0;
        self.rejects = 0;
        self.ambiguous = 0;
        self.not_applied = 0;
        self.freed_reuse = 0;
        self.just_exited = false;
        self.lowered = 0;
        self.raised = 0;
        self.over_cap_after_lowering = 0;
        self.restored = 0;
        match &self.cfg {
            Cfg::Isolation { .. } => self.load_isolation(),
            Cfg::Hotspot { .. } => self.load_hotspot(),
        }
    }
    fn enabled(&self) -> Vec<Op> {
        let mut v = vec![];
        match &self.cfg {
            Cfg::Isolation { .. } => {
                for b in [1, 2, 3] {
                    v.push(Op::Build { batch: b, value: "", with_param: false });
                }
            }
            Cfg::Hotspot { capacity, .. } => {
                let values: &[&'static str] = if *capacity == 2 { &["x", "y"] } else { &["x", "y", "z"] };
                for val in values {
                    v.push(Op::Build { batch: 1, value: val, with_param: true });
                }
                v.push(Op::Build { batch: 2, value: "x", with_param: true });
                v.push(Op::Build { batch: 1, value: "x", with_param: false });
            }
        }
        for i in 0..self.open.len().min(4) {
            v.push(Op::Exit(i));
        }
        if let Cfg::Hotspot { .. } = &self.cfg {
            if !self.open.is_empty() && self.raised < 2 {
                v.push(Op::Raise);
            }
        }
        if let Cfg::Isolation { thresholds } = &self.cfg {
            if !self.open.is_empty() && self.lowered < 2 && thresholds.iter().any(|t| self.eff(*t) > 1) {
                v.push(Op::Lower);
            }
            if self.restored == 0 {
                v.push(Op::Restore);
            }
        }
        v
    }
    fn step(&mut self, op: &Op) -> Result<(), String> {
        match op {
            Op::Exit(i) => {
                let o = self.open.remove(*i);
                o.e.exit();
                self.just_exited = true;
            }
            Op::Lower => {
                self.lowered += 1;
                self.load_isolation();
            }
            Op::Raise => {
                self.raised += 1;
                self.load_hotspot();
            }
            Op::Restore => {
                self.restored += 1;
                isolation::load_rules(vec![]);
                self.lowered = 0;
                self.load_isolation();
            }
            Op::Build { batch, value, with_param } => {
                if self.open.len() >= 4 {
                    return Ok(());
                }
                let (args, att, extracted) = self.shape(value, *with_param);
                let r = build_full(RES, TrafficType::Outbound, *batch, args, att);
                match &self.cfg {
                    Cfg::Isolation { thresholds } => {
                        let thresholds: Vec<u32> = thresholds.iter().map(|t| self.eff(*t)).collect();
                        let thresholds = &thresholds;
                        let cur = self.inflight();
                        if thresholds.iter().any(|t| cur > *t) {
                            self.over_cap_after_lowering += 1;
                        }
                        let misfits: Vec<usize> = thresholds.iter().enumerate().filter(|(_, t)| cur + batch > **t).map(|(i, _)| i).collect();
                        match r {
                            Built::Ok(e) => {
                                if !misfits.is_empty() {
                                    return Err(format!("admitted-over-cap: {} in flight + batch {} exceeds threshold {} of rule i{}", cur, batch, thresholds[misfits[0]], misfits[0]));
                                }
                                if self.just_exited {
                                    self.freed_reuse += 1;
                                }
                                self.open.push(Open { e, value: None });
                                self.admits += 1;
                            }
                            Built::Blocked(b, text) => {
                                if misfits.is_empty() {
                                    return Err(format!("rejected-under-cap: {} in flight + batch {} fits every threshold {:?}: {}", cur, batch, thresholds, text.chars().take(120).collect::<String>()));
                                }
                                if b.block_type != "Isolation" {
                                    return Err(format!("block-type: isolation rejection reported as {}", b.block_type));
                                }
                                match &b.rule_id {
                                    Some(id) if misfits.iter().any(|m| &format!("i{}", m) == id) => {}
                                    other => return Err(format!("rule-named: {:?} but the rules that do not fit are {:?}", other, misfits)),
                                }
                                if b.snapshot.as_deref() != Some(&cur.to_string()) {
                                    return Err(format!("snapshot: reported value {:?}, in flight {}", b.snapshot, cur));
                                }
                                self.rejects += 1;
                            }
                        }
                    }
                    Cfg::Hotspot { threshold, overrides, .. } => match extracted {
                        None => {
                            self.not_applied += 1;
                            match r {
                                Built::Ok(e) => self.open.push(Open { e, value: None }),
                                Built::Blocked(_, text) => return Err(format!("missing-param-rejected: request without the parameter rejected: {}", text.chars().take(120).collect::<String>())),
                            }
                        }
                        Some(v) => {
                            let t = overrides.iter().find(|(k, _)| *k == v).map(|(_, t)| *t).unwrap_or(*threshold + self.raised);
                            let cur = self.inflight_of(&v);
                            match r {
                                Built::Ok(e) => {
                                    if cur + 1 > t {
                                        return Err(format!("admitted-over-cap: value {:?} has {} in flight, threshold {}", v, cur, t));
                                    }
                                    if cur + *batch as u64 > t {
                                        self.ambiguous += 1;
                                    }
                                    self.open.push(Open { e, value: Some(v) });
                                    self.admits += 1;
                                }
                                Built::Blocked(b, text) => {
                                    if cur + *batch as u64 <= t {
                                        return Err(format!("rejected-under-cap: value {:?} has {} in flight + batch {} fits threshold {}: {}", v, cur, batch, t, text.chars().take(120).collect::<String>()));
                                    }
                                    if cur + 1 <= t {
                                        self.ambiguous += 1;
                                    }
                                    if b.block_type != "HotSpotParamFlow" {
                                        return Err(format!("block-type: hotspot rejection reported as {}", b.block_type));
                                    }
                                    if b.rule_id.as_deref() != Some("h0") {
                                        return Err(format!("rule-named: {:?}", b.rule_id));
                                    }
                                    self.rejects += 1;
                                }
                            }
                        }
                    },
                }
                self.just_exited = false;
            }
        }
        // the node's in-flight count is the number of open entries
        if let Some(n) = stat::get_resource_node(&RES.to_string()) {
            if n.current_concurrency() != self.inflight() {
                return Err(format!("inflight: node reports {}, {} entries are open", n.current_concurrency(), self.inflight()));
            }
        }
        // hotspot: per-value caps hold at all times
        if let Cfg::Hotspot { threshold, overrides, .. } = &self.cfg {
            let mut per: BTreeMap<String, u64> = BTreeMap::new();
            for o in &self.open {
                if let Some(v) = &o.value {
                    *per.entry(v.clone()).or_insert(0) += 1;
                }
            }
            for (v, c) in per {
                let t = overrides.iter().find(|(k, _)| *k == v).map(|(_, t)| *t).unwrap_or(*threshold + self.raised);
                if c > t {
                    return Err(format!("cap-exceeded: value {:?}: {} in flight, threshold {}", v, c, t));
                }
            }
        }
        Ok(())
    }
    fn nontrivial(&self) -> bool {
        self.admits >= 1 && self.rejects >= 1
    }
    fn outcome(&self) -> String {
        format!("a{}r{}", self.admits, self.rejects)
    }
    fn counters(&self) -> Vec<(&'static str, u64)> {
        vec![("ambiguous_by_statement_batch_gt_1", self.ambiguous), ("rule_not_applied_missing_parameter", self.not_applied), ("admitted_right_after_an_exit", self.freed_reuse), ("requests_while_in_flight_exceeds_a_lowered_threshold", self.over_cap_after_lowering)]
    }
}

impl C05 {
    fn load_hotspot(&self) {
        if let Cfg::Hotspot { threshold, index, keyed, overrides, capacity } = &self.cfg {
            hotspot::load_rules(vec![Arc::new(hotspot::Rule {
                id: "h0".into(),
                resource: RES.into(),
                metric_type: hotspot::MetricType::Concurrency,
                control_strategy: hotspot::ControlStrategy::Reject,
                param_index: *index,
                param_key: if *keyed { "k".into() } else { String::new() },
                threshold: *threshold + self.raised,
                params_max_capacity: *capacity,
                specific_items: overrides.iter().cloned().collect(),
                ..Default::default()
            })]);
        }
    }
}
pub fn configs(thorough: bool) -> Vec<Cfg> {
    let mut v = vec![];
    for a in 1..=4u32 {
        v.push(Cfg::Isolation { thresholds: vec![a] });
        for b in 1..=4u32 {
            if b != a {
                v.push(Cfg::Isolation { thresholds: vec![a, b] });
            }
        }
    }
    v.push(Cfg::Isolation { thresholds: vec![3, 2, 4] });
    v.push(Cfg::Isolation { thresholds: vec![4, 4, 1] });
    // 2 = exactly the length of the argument list (first index outside it), -3 / 5 further outside
    let idx: &[isize] = if thorough { &[0, 1, -1, -2, -3, 2, 5] } else { &[0, -1, -2, -3, 2] };
    for &index in idx {
        for threshold in [1u64, 2] {
            for overrides in [vec![], vec![("x".to_string(), 1u64)], vec![("x".to_string(), 3u64), ("y".to_string(), 1u64)]] {
                for capacity in [0usize, 2] {
                    v.push(Cfg::Hotspot { threshold, index, keyed: false, overrides: overrides.clone(), capacity });
                }
            }
        }
    }
    for threshold in [1u64, 2] {
        for overrides in [vec![], vec![("x".to_string(), 3u64)]] {
            v.push(Cfg::Hotspot { threshold, index: 0, keyed: true, overrides, capacity: 0 });
        }
    }
    v
}

pub fn run(o: &Opts, stats: &mut Stats) -> Option<usize> {
    let cfgs = configs(o.thorough);
    let thorough = o.thorough;
    run_configs(o, stats, &cfgs, |c, _| C05::new(c), &move |_c: &Cfg| if thorough { vec![Pass { depth: 8, max_dev: 8 }] } else { vec![Pass { depth: 6, max_dev: 6 }] })
}
