//! C08 (second part) — "cold again after an idle period of >= 2p seconds" for EVERY demand history.
//!
//! The first part runs a family of regular demand profiles. Whether the rule cools down depends
//! on the exact token count the history leaves behind, so here the history itself is explored:
//! every sequence (up to the depth / deviation bound) of one-second demand levels
//! {nothing, saturating, floor(q/c), floor(q/c)+1, 1, the allowance the calculator announces,
//! q/2}, each offered as one burst at the start of its second on the real EntryBuilder. After every
//! second: never more than q admitted, demand below the cold allowance fully admitted, the
//! calculator's allowance inside [q/c, q]. At the end of every history: 2p idle seconds, then a
//! saturating second, which must be admitted at the cold rate (floor(q/c)-1 ..= ceil(q/c)+1).
use super::{run_configs, Pass};
use crate::common::*;
use crate::explore::Subject;
use crate::sut::*;
use sentinel_core::base::TrafficType;
use sentinel_core::flow;
use sentinel_verif_rt::clock;
use serde::{Deserialize, Serialize};
use std::sync::Arc;

#[derive(Serialize, Deserialize, Clone, Debug)]
pub struct Cfg {
    pub q: u32,
    pub c: u32,
    pub p: u32,
    /// marks the configuration as belonging to this part (replay dispatch)
    pub history: bool,
}

#[derive(Clone, Copy, Debug, PartialEq)]
pub enum Op {
    Idle,
    Saturating,
    Cold,
    ColdPlusOne,
    One,
    AtAllowance,
    Half,
}

const RES: &str = "c08s-res";

pub struct C08s {
    cfg: Cfg,
    sec: u64,
    admitted: Vec<u64>,
    warm: bool,
}

fn eff_c(c: u32) -> u64 {
    if c <= 1 {
        3
    } else {
        c as u64
    }
}

impl C08s {
    pub fn new(cfg: &Cfg) -> Self {
        C08s { cfg: cfg.clone(), sec: 0, admitted: vec![], warm: false }
    }
    fn offer(&mut self, n: u64) -> u64 {
        clock::set_ms(T0_MS + self.sec * 1000);
        let mut a = 0;
        for _ in 0..n {
            if let Built::Ok(e) = build(RES, TrafficType::Outbound, 1) {
                a += 1;
                e.exit();
            }
        }
        self.sec += 1;
        a
    }
    fn allowance(&self) -> f64 {
        let tc = flow::get_traffic_controller_list_for(&RES.to_string())[0].clone();
        let a = tc.get_calculator().lock().unwrap().calculate_allowed_threshold(1, 0);
        a
    }
}

impl Subject for C08s {
    type Op = Op;
    fn reset(&mut self) {
        reset_world(T0_MS);
        flow::load_rules(vec![Arc::new(flow::Rule {
            id: "w0".into(),
            resource: RES.into(),
            threshold: self.cfg.q as f64,
            calculate_strategy: flow::CalculateStrategy::WarmUp,
            control_strategy: flow::ControlStrategy::Reject,
            warm_up_period_sec: self.cfg.p,
            warm_up_cold_factor: self.cfg.c,
            ..Default::default()
        })]);
        self.sec = 0;
        self.admitted.clear();
        self.warm = false;
    }
    fn enabled(&self) -> Vec<Op> {
        vec![Op::Idle, Op::Saturating, Op::Cold, Op::ColdPlusOne, Op::One, Op::AtAllowance, Op::Half]
    }
    fn step(&mut self, op: &Op) -> Result<(), String> {
        let q = self.cfg.q as u64;
        let c = eff_c(self.cfg.c);
        let floor_cold = q / c;
        clock::set_ms(T0_MS + self.sec * 1000);
        let n = match op {
            Op::Idle => 0,
            Op::Saturating => q + 5,
            Op::Cold => floor_cold,
            Op::ColdPlusOne => floor_cold + 1,
            Op::One => 1,
            Op::AtAllowance => self.allowance().floor() as u64,
            Op::Half => q / 2,
        };
        let a = self.offer(n);
        self.admitted.push(a);
        if a > q {
            return Err(format!("over-threshold: {} admitted in second {} (threshold {})", a, self.sec - 1, q));
        }
        if n + 1 <= floor_cold && a != n {
            return Err(format!("rejected-below-cold-allowance: second {}: {} of {} requests admitted although the demand is below q/c = {}", self.sec - 1, a, n, floor_cold));
        }
        if n > 0 {
            let al = self.allowance();
            if al < q as f64 / c as f64 - 1e-6 || al > q as f64 + 1e-6 {
                return Err(format!("allowance-range: after second {} the calculator announces {}, outside [q/c, q] = [{}, {}]", self.sec - 1, al, q as f64 / c as f64, q));
            }
        }
        if a > floor_cold + 2 {
            self.warm = true;
        }
        Ok(())
    }
    fn finish(&mut self) -> Result<(), String> {
        // 2p idle seconds, then a saturating second: cold again, whatever the history left behind
        let q = self.cfg.q as u64;
        let c = eff_c(self.cfg.c);
        self.sec += 2 * self.cfg.p as u64;
        let a = self.offer(q + 5);
        let (lo, hi) = ((q / c).saturating_sub(1), (q + c - 1) / c + 1);
        if a > hi {
            return Err(format!("not-cold: after the per-second admissions {:?} and {} idle seconds (= 2p) a saturating second admitted {} > ceil(q/c)+1 = {}", self.admitted, 2 * self.cfg.p, a, hi));
        }
        if a < lo {
            return Err(format!("below-cold-floor: after the per-second admissions {:?} and {} idle seconds a saturating second admitted {} < floor(q/c)-1 = {}", self.admitted, 2 * self.cfg.p, a, lo));
        }
        Ok(())
    }
    fn nontrivial(&self) -> bool {
        self.warm
    }
    fn outcome(&self) -> String {
        format!("warm={}", self.warm)
    }
    fn counters(&self) -> Vec<(&'static str, u64)> {
        vec![("histories_that_warmed_up_before_the_idle_period", self.warm as u64)]
    }
    fn sig(&self, why: &str) -> String {
        format!("history:{}", why.split(':').next().unwrap_or(""))
    }
}

pub fn configs(thorough: bool) -> Vec<Cfg> {
    let mut v = vec![];
    let qs: &[u32] = if thorough { &[30, 60, 100, 101, 250] } else { &[100] };
    let cs: &[u32] = if thorough { &[0, 2, 4, 6] } else { &[0, 2] };
    let ps: &[u32] = if thorough { &[1, 2, 3, 5] } else { &[1, 2] };
    for &q in qs {
        for &c in cs {
            if (q as u64) < 10 * eff_c(c) {
                continue;
            }
            for &p in ps {
                v.push(Cfg { q, c, p, history: true });
            }
        }
    }
    v
}

pub fn run(o: &Opts, stats: &mut Stats) -> Option<usize> {
    let cfgs = configs(o.thorough);
    let thorough = o.thorough;
    run_configs(o, stats, &cfgs, |c, _| C08s::new(c), &move |_c: &Cfg| if thorough { vec![Pass { depth: 6, max_dev: 5 }] } else { vec![Pass { depth: 5, max_dev: 4 }] })
}
