//! Second part (schedule explorer) of C09, C11 and C05 — a rule that is in force before AND after
//! a rule update is in force at every instant of the update.
//!
//! One rule K of a family rejects every entry on resource RA (system: every inbound entry). While
//! thread A performs one rule-management call whose old and new rule sets both contain K (other
//! rules are added, removed or replaced around it, on the same resource and on another one),
//! thread B builds one entry on RA. Every interleaving of the two threads' lock / atomic operations
//! up to the preemption bound is executed; in each of them the entry must be rejected, and by the
//! family of K. After both returned the rule is still in force (and what the update added as well).
//!
//!  C10: the append of every family ("an append adds the new rule without dropping or disabling
//!       any rule that was already active")
//!  the other updates (replacements that keep K):
//!  C09: system rules  (K = inbound concurrency >= 0 trips)
//!  C11: flow (K = threshold 0), hotspot (K = QPS threshold 0) and circuit-breaker rules (K's
//!       breaker is Open: an unchanged rule keeps its state through the update)
//!  C05: isolation (K = threshold 1 with one entry in flight)
use crate::common::*;
use crate::sched::*;
use crate::sut::*;
use sentinel_core::base::TrafficType;
use sentinel_core::{circuitbreaker as cb, flow, hotspot, isolation, system};
use sentinel_verif_rt::clock;
use std::sync::Arc;

#[derive(Clone, Copy, Debug, PartialEq)]
pub enum Fam {
    Sys,
    Flow,
    Hotspot,
    Cb,
    Iso,
}

#[derive(Clone, Copy, Debug, PartialEq)]
pub enum Upd {
    /// load-all: [K] -> [K, O1, O2]
    LoadAdd,
    /// load-all: [K, O1, O2] -> [K]
    LoadShrink,
    /// load-all: [K, O2] -> [O1, K] (K moves, O2 goes, O1 comes)
    LoadReplace,
    /// load-all whose new list holds an invalid rule before K: [K] -> [invalid, K, O1]
    LoadWithInvalid,
    /// load-for-resource on RA: [K] -> [K, O1]
    LoadResAdd,
    /// append O1 (same resource as K)
    Append,
    /// [K, O2]: clear the other resource
    ClearOther,
    /// [K]: load-for-resource on the other resource
    LoadOtherRes,
}

const RA: &str = "ra-a";
const RB: &str = "ra-b";

fn sys_k() -> Arc<system::Rule> {
    Arc::new(system::Rule { id: "K".into(), metric_type: system::MetricType::Concurrency, threshold: 0.0, ..Default::default() })
}
fn sys_o(k: u8) -> Arc<system::Rule> {
    match k {
        1 => Arc::new(system::Rule { id: "O1".into(), metric_type: system::MetricType::InboundQPS, threshold: 1000.0, ..Default::default() }),
        2 => Arc::new(system::Rule { id: "O2".into(), metric_type: system::MetricType::AvgRT, threshold: 100000.0, ..Default::default() }),
        _ => Arc::new(system::Rule { id: "bad".into(), metric_type: system::MetricType::CpuUsage, threshold: 150.0, ..Default::default() }),
    }
}
fn flow_r(k: u8) -> Arc<flow::Rule> {
    match k {
        0 => Arc::new(flow::Rule { id: "K".into(), resource: RA.into(), threshold: 0.0, stat_interval_ms: 1000, ..Default::default() }),
        1 => Arc::new(flow::Rule { id: "O1".into(), resource: RA.into(), threshold: 50.0, stat_interval_ms: 1000, ..Default::default() }),
        2 => Arc::new(flow::Rule { id: "O2".into(), resource: RB.into(), threshold: 30.0, stat_interval_ms: 1000, ..Default::default() }),
        _ => Arc::new(flow::Rule { id: "bad".into(), resource: RA.into(), threshold: -1.0, ..Default::default() }),
    }
}
fn hs_r(k: u8) -> Arc<hotspot::Rule> {
    match k {
        0 => Arc::new(hotspot::Rule { id: "K".into(), resource: RA.into(), metric_type: hotspot::MetricType::QPS, threshold: 0, duration_in_sec: 1, params_max_capacity: 10, ..Default::default() }),
        1 => Arc::new(hotspot::Rule { id: "O1".into(), resource: RA.into(), metric_type: hotspot::MetricType::QPS, threshold: 50, duration_in_sec: 2, params_max_capacity: 10, ..Default::default() }),
        2 => Arc::new(hotspot::Rule { id: "O2".into(), resource: RB.into(), metric_type: hotspot::MetricType::QPS, threshold: 30, duration_in_sec: 1, params_max_capacity: 10, ..Default::default() }),
        _ => Arc::new(hotspot::Rule { id: "bad".into(), resource: RA.into(), metric_type: hotspot::MetricType::QPS, threshold: 5, duration_in_sec: 0, ..Default::default() }),
    }
}
fn cb_r(k: u8) -> Arc<cb::Rule> {
    let base = cb::Rule { strategy: cb::BreakerStrategy::ErrorCount, retry_timeout_ms: 3_600_000, min_request_amount: 1, stat_interval_ms: 1000, threshold: 1.0, ..Default::default() };
    match k {
        0 => Arc::new(cb::Rule { id: "K".into(), resource: RA.into(), ..base }),
        1 => Arc::new(cb::Rule { id: "O1".into(), resource: RA.into(), strategy: cb::BreakerStrategy::ErrorRatio, threshold: 0.9, min_request_amount: 100, ..base }),
        2 => Arc::new(cb::Rule { id: "O2".into(), resource: RB.into(), threshold: 30.0, ..base }),
        _ => Arc::new(cb::Rule { id: "bad".into(), resource: RA.into(), stat_interval_ms: 0, ..base }),
    }
}
fn iso_r(k: u8) -> Arc<isolation::Rule> {
    match k {
        0 => Arc::new(isolation::Rule { id: "K".into(), resource: RA.into(), threshold: 1, ..Default::default() }),
        1 => Arc::new(isolation::Rule { id: "O1".into(), resource: RA.into(), threshold: 50, ..Default::default() }),
        2 => Arc::new(isolation::Rule { id: "O2".into(), resource: RB.into(), threshold: 30, ..Default::default() }),
        _ => Arc::new(isolation::Rule { id: "bad".into(), resource: RA.into(), threshold: 0, ..Default::default() }),
    }
}

fn initial(u: Upd) -> Vec<u8> {
    match u {
        Upd::LoadAdd | Upd::LoadWithInvalid | Upd::LoadResAdd | Upd::Append | Upd::LoadOtherRes => vec![0],
        Upd::LoadShrink => vec![0, 1, 2],
        Upd::LoadReplace | Upd::ClearOther => vec![0, 2],
    }
}

fn load_all(f: Fam, ks: &[u8]) {
    match f {
        Fam::Sys => system::load_rules(ks.iter().map(|k| if *k == 0 { sys_k() } else { sys_o(*k) }).collect()),
        Fam::Flow => {
            flow::load_rules(ks.iter().map(|k| flow_r(*k)).collect());
        }
        Fam::Hotspot => {
            hotspot::load_rules(ks.iter().map(|k| hs_r(*k)).collect());
        }
        Fam::Cb => {
            cb::load_rules(ks.iter().map(|k| cb_r(*k)).collect());
        }
        Fam::Iso => isolation::load_rules(ks.iter().map(|k| iso_r(*k)).collect()),
    }
}

fn update(f: Fam, u: Upd) {
    let ra = RA.to_string();
    let rb = RB.to_string();
    match u {
        Upd::LoadAdd => load_all(f, &[0, 1, 2]),
        Upd::LoadShrink => load_all(f, &[0]),
        Upd::LoadReplace => load_all(f, &[1, 0]),
        Upd::LoadWithInvalid => load_all(f, &[9, 0, 1]),
        Upd::LoadResAdd => match f {
            Fam::Sys => load_all(f, &[0, 1]),
            Fam::Flow => {
                let _ = flow::load_rules_of_resource(&ra, vec![flow_r(0), flow_r(1)]);
            }
            Fam::Hotspot => {
                let _ = hotspot::load_rules_of_resource(&ra, vec![hs_r(0), hs_r(1)]);
            }
            Fam::Cb => {
                let _ = cb::load_rules_of_resource(&ra, vec![cb_r(0), cb_r(1)]);
            }
            Fam::Iso => {
                let _ = isolation::load_rules_of_resource(&ra, vec![iso_r(0), iso_r(1)]);
            }
        },
        Upd::Append => match f {
            Fam::Sys => {
                system::append_rule(sys_o(1));
            }
            Fam::Flow => {
                flow::append_rule(flow_r(1));
            }
            Fam::Hotspot => {
                hotspot::append_rule(hs_r(1));
            }
            Fam::Cb => {
                cb::append_rule(cb_r(1));
            }
            Fam::Iso => {
                isolation::append_rule(iso_r(1));
            }
        },
        Upd::ClearOther => match f {
            Fam::Sys => load_all(f, &[0]),
            Fam::Flow => flow::clear_rules_of_resource(&rb),
            Fam::Hotspot => hotspot::clear_rules_of_resource(&rb),
            Fam::Cb => cb::clear_rules_of_resource(&rb),
            Fam::Iso => isolation::clear_rules_of_resource(&rb),
        },
        Upd::LoadOtherRes => match f {
            Fam::Sys => load_all(f, &[0, 2]),
            Fam::Flow => {
                let _ = flow::load_rules_of_resource(&rb, vec![flow_r(2)]);
            }
            Fam::Hotspot => {
                let _ = hotspot::load_rules_of_resource(&rb, vec![hs_r(2)]);
            }
            Fam::Cb => {
                let _ = cb::load_rules_of_resource(&rb, vec![cb_r(2)]);
            }
            Fam::Iso => {
                let _ = isolation::load_rules_of_resource(&rb, vec![iso_r(2)]);
            }
        },
    }
}

fn want_block(f: Fam) -> &'static str {
    match f {
        Fam::Sys => "SystemFlow",
        Fam::Flow => "Flow",
        Fam::Hotspot => "HotSpotParamFlow",
        Fam::Cb => "CircuitBreaking",
        Fam::Iso => "Isolation",
    }
}

fn attempt(f: Fam, when: &str) {
    match build_full(RA, TrafficType::Inbound, 1, Some(vec!["v".into()]), None) {
        Built::Ok(e) => {
            e.exit();
            panic!("ORACLE: admitted-{}: an entry on {} was admitted {} a rule update although rule K ({:?}) is part of the rules before and after it", when, RA, when, f);
        }
        Built::Blocked(b, text) => {
            if b.block_type != want_block(f) {
                panic!("ORACLE: wrong-block-{}: rejected as {:?}, expected {}: {}", when, b.block_type, want_block(f), text.chars().take(160).collect::<String>());
            }
            // (a circuit-breaking block carries no rule)
            if b.rule_id.as_deref() != Some("K") && f != Fam::Cb {
                panic!("ORACLE: wrong-rule-{}: rejected by rule {:?}, only K can reject: {}", when, b.rule_id, text.chars().take(160).collect::<String>());
            }
        }
    }
}

fn cleanup() {
    flow::clear_rules();
    cb::clear_rules();
    hotspot::clear_rules();
    isolation::clear_rules();
    system::clear_rules();
}

fn body(f: Fam, u: Upd) -> Body {
    Arc::new(move || {
        clock::set_ms(T0_MS + 250);
        cleanup();
        load_all(f, &initial(u));
        // family-specific preparation of "K rejects everything"
        let mut held = None;
        match f {
            Fam::Cb => {
                // one failed request opens K's breaker; it stays Open for an hour
                match build_full(RA, TrafficType::Inbound, 1, Some(vec!["v".into()]), None) {
                    Built::Ok(e) => {
                        e.set_err(sentinel_core::Error::msg("boom"));
                        e.exit();
                    }
                    Built::Blocked(_, t) => panic!("MACHINERY: preparation entry rejected: {}", t),
                }
                clock::advance_ms(10);
            }
            Fam::Iso => match build_full(RA, TrafficType::Inbound, 1, Some(vec!["v".into()]), None) {
                Built::Ok(e) => held = Some(e),
                Built::Blocked(_, t) => panic!("MACHINERY: preparation entry rejected: {}", t),
            },
            _ => {}
        }
        // K is in force before the update (a scenario that does not even start is a machinery fault)
        if let Built::Ok(e) = build_full(RA, TrafficType::Inbound, 1, Some(vec!["v".into()]), None) {
            e.exit();
            panic!("MACHINERY: rule K of {:?} does not reject before the update", f);
        }
        let a = shuttle::thread::spawn(move || update(f, u));
        let b = shuttle::thread::spawn(move || attempt(f, "during"));
        a.join().unwrap();
        b.join().unwrap();
        attempt(f, "after");
        let n = match f {
            Fam::Sys => system::get_rules().len(),
            Fam::Flow => flow::get_rules().len(),
            Fam::Hotspot => hotspot::get_rules().len(),
            Fam::Cb => cb::get_rules().len(),
            Fam::Iso => isolation::get_rules().len(),
        };
        let want = match u {
            Upd::LoadAdd => 3,
            Upd::LoadShrink => 1,
            Upd::LoadReplace | Upd::LoadWithInvalid | Upd::LoadResAdd | Upd::Append => 2,
            Upd::ClearOther => 1,
            Upd::LoadOtherRes => 2,
        };
        if n != want {
            panic!("ORACLE: rules-after: {} rules of {:?} in force after {:?}, expected {}", n, f, u, want);
        }
        outcome(format!("rules={}", n));
        if let Some(e) = held {
            e.exit();
        }
        cleanup();
    })
}

pub const ALL_FAMS: [Fam; 5] = [Fam::Flow, Fam::Cb, Fam::Hotspot, Fam::Iso, Fam::Sys];
/// every update but the append (which is C10's)
pub const REPLACEMENTS: [Upd; 7] = [Upd::LoadAdd, Upd::LoadShrink, Upd::LoadReplace, Upd::LoadWithInvalid, Upd::LoadResAdd, Upd::ClearOther, Upd::LoadOtherRes];

pub fn scenarios(fams: &[Fam], upds: &[Upd], thorough: bool) -> Vec<Scenario> {
    let mut v = vec![];
    for f in fams {
        for u in upds.iter().cloned() {
            v.push(Scenario { name: format!("reload-atomic:{:?}:{:?}", f, u), bound: if thorough { 3 } else { 2 }, cap: 0, body: body(*f, u) });
        }
    }
    v
}

pub fn run(fams: &[Fam], upds: &[Upd], o: &Opts, stats: &mut Stats) -> Option<usize> {
    run_scenarios(o, stats, scenarios(fams, upds, o.thorough))
}
