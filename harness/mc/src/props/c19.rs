//! C19 — metric log: written items can be searched back; a torn tail loses one line.
//!
//! E-seq part: a bounded family of write histories on the real DefaultMetricLogWriter, every
//! query of a grid answered by the real DefaultMetricSearcher and compared with the list of
//! written items. E-crash part: every byte prefix of the journal of file operations the writer
//! actually issued is materialised and searched.
use crate::common::*;
use sentinel_core::base::{MetricItem, ResourceType};
use sentinel_core::config::{self, ConfigEntity};
use sentinel_core::log::metric::{DefaultMetricLogWriter, DefaultMetricSearcher, MetricLogWriter, MetricSearcher};
use sentinel_verif_rt::clock;
use sentinel_verif_rt::journal::{self, Op};
use serde::{Deserialize, Serialize};
use serde_json::json;
use std::collections::BTreeMap;
use std::path::{Path, PathBuf};

#[derive(Serialize, Deserialize, Clone, Debug)]
pub struct Cfg {
    /// seconds between consecutive written seconds (first: after the writer's creation second)
    pub gaps: Vec<u64>,
    /// resources (indices into RES) written in each second
    pub res: Vec<Vec<usize>>,
    pub max_size: u64,
    pub max_files: usize,
    pub crash: bool,
}

const RES: [&str; 3] = ["ra", "rb", "rc"];
const APP: &str = "c19app";
const T_CREATE: u64 = T0_MS + 123;

#[derive(Clone, Debug, PartialEq)]
pub struct Written {
    pub sec: u64,
    pub res: usize,
    pub uid: u64,
}

fn dir() -> PathBuf {
    let base = std::env::var("C19_DIR").unwrap_or_else(|_| format!("{}/../tmp", env!("CARGO_MANIFEST_DIR")));
    PathBuf::from(base).join(format!("c19-{}", std::process::id()))
}
fn dir_string() -> String {
    format!("{}/", dir().to_string_lossy())
}
fn clean_dir() {
    let d = dir();
    let _ = std::fs::remove_dir_all(&d);
    std::fs::create_dir_all(&d).unwrap();
}
fn set_config(c: &Cfg) {
    let mut e = ConfigEntity::new();
    e.config.app.app_name = APP.into();
    e.config.log.metric.dir = dir_string();
    e.config.log.metric.use_pid = false;
    e.config.log.metric.single_file_max_size = c.max_size;
    e.config.log.metric.max_file_count = c.max_files;
    e.config.log.metric.flush_interval_sec = 0;
    e.config.use_cache_time = false;
    config::reset_global_config(e);
}

/// Run the write history on the real writer; returns the journal and the written items.
pub fn write_history(c: &Cfg) -> Result<(Vec<Op>, Vec<Written>), String> {
    clean_dir();
    set_config(c);
    clock::set_ms(T_CREATE);
    journal::take();
    journal::enable(true);
    let mut w = DefaultMetricLogWriter::new(c.max_size, c.max_files).map_err(|e| format!("writer-creation-failed: {}", e))?;
    let mut t = T_CREATE;
    let mut written = vec![];
    let mut uid = 1000u64;
    for (i, gap) in c.gaps.iter().enumerate() {
        t += gap * 1000;
        clock::set_ms(t);
        let mut items = vec![];
        for r in &c.res[i % c.res.len()] {
            uid += 1;
            items.push(MetricItem::verif_new(RES[*r].into(), ResourceType::Common, 0, uid, 2, 3, 4, 5, 0, 7));
            written.push(Written { sec: t / 1000, res: *r, uid });
        }
        w.write(t, &mut items).map_err(|e| format!("write-failed: second {} refused: {}", t / 1000, e))?;
    }
    drop(w);
    journal::enable(false);
    Ok((journal::take(), written))
}

fn is_idx(p: &Path) -> bool {
    p.to_string_lossy().ends_with(".idx")
}

/// What the journal says is on disk after its first `n_ops` operations plus `extra` bytes of the next.
fn replay_journal(j: &[Op], n_ops: usize, extra: usize) -> BTreeMap<PathBuf, Vec<u8>> {
    let mut fs: BTreeMap<PathBuf, Vec<u8>> = BTreeMap::new();
    for (i, op) in j.iter().enumerate() {
        if i > n_ops {
            break;
        }
        let partial = i == n_ops;
        match op {
            Op::Create(p) => {
                if !partial {
                    fs.insert(p.clone(), vec![]);
                }
            }
            Op::Remove(p) => {
                if !partial {
                    fs.remove(p);
                }
            }
            Op::Write(p, b) => {
                let n = if partial { extra.min(b.len()) } else { b.len() };
                if n > 0 {
                    fs.entry(p.clone()).or_default().extend_from_slice(&b[..n]);
                }
            }
        }
    }
    fs
}

fn materialise(fs: &BTreeMap<PathBuf, Vec<u8>>) {
    clean_dir();
    for (p, b) in fs {
        std::fs::write(p, b).unwrap();
    }
}

fn uid_of(m: &MetricItem) -> (u64, u64, String) {
    let f = m.verif_fields();
    (f.3, f.2 / 1000, f.0)
}

fn searcher() -> Result<DefaultMetricSearcher, String> {
    DefaultMetricSearcher::new(dir_string(), format!("{}-metrics.log", APP)).map_err(|e| format!("searcher-creation-failed: {}", e))
}

fn guarded<T>(what: &str, f: impl FnOnce() -> T) -> Result<T, String> {
    std::panic::catch_unwind(std::panic::AssertUnwindSafe(f)).map_err(|e| format!("panic@{}: during {}: {}", last_panic_loc(), what, panic_msg(e).chars().take(160).collect::<String>()))
}

/// expected answer of the range query over the retained items
fn expect_range(retained: &[Written], b_ms: u64, e_ms: u64, r: Option<usize>) -> Vec<u64> {
    retained.iter().filter(|w| w.sec >= b_ms / 1000 && w.sec <= e_ms / 1000 && r.map(|x| x == w.res).unwrap_or(true)).map(|w| w.uid).collect()
}
/// expected answer of the line-limit query: whole seconds from b until the count reaches m
fn expect_lines(retained: &[Written], b_ms: u64, m: usize) -> Vec<u64> {
    let mut out = vec![];
    let mut last = 0;
    for w in retained.iter().filter(|w| w.sec >= b_ms / 1000) {
        if out.len() >= m && w.sec != last {
            break;
        }
        out.push(w.uid);
        last = w.sec;
    }
    out
}

pub struct Outcome {
    pub queries: u64,
    pub crash_states: u64,
    pub files: usize,
    pub removed: usize,
}

pub fn run_cfg(c: &Cfg) -> Result<Outcome, String> {
    let (j, written) = write_history(c)?;
    if std::env::var("C19_DEBUG").is_ok() {
        for (i, op) in j.iter().enumerate() {
            match op {
                Op::Create(p) => println!("  journal {:3}: create {:?}", i, p.file_name().unwrap()),
                Op::Remove(p) => println!("  journal {:3}: remove {:?}", i, p.file_name().unwrap()),
                Op::Write(p, b) => println!("  journal {:3}: write  {:?} {}", i, p.file_name().unwrap(), if is_idx(p) { format!("{:?}", u64::from_be_bytes(b[..8].try_into().unwrap())) } else { String::from_utf8_lossy(b).trim_end().to_string() }),
            }
        }
    }
    // ---- what the journal says: files, removals, truncations
    let mut created: Vec<PathBuf> = vec![];
    let mut removed: Vec<PathBuf> = vec![];
    let mut live_logs = 0usize;
    let mut fs_now: BTreeMap<PathBuf, usize> = BTreeMap::new();
    for op in &j {
        match op {
            Op::Create(p) => {
                if fs_now.get(p).copied().unwrap_or(0) > 0 {
                    return Err(format!("overwrote-live-file: the writer re-created {:?}, which still held {} bytes of metric data", p.file_name().unwrap(), fs_now[p]));
                }
                fs_now.insert(p.clone(), 0);
                if !is_idx(p) {
                    created.push(p.clone());
                    live_logs += 1;
                    if live_logs > c.max_files {
                        return Err(format!("retention-exceeded: {} metric log files exist at once, max_file_count is {}", live_logs, c.max_files));
                    }
                }
            }
            Op::Write(p, b) => *fs_now.entry(p.clone()).or_default() += b.len(),
            Op::Remove(p) => {
                fs_now.remove(p);
                if !is_idx(p) {
                    live_logs -= 1;
                    // oldest first
                    let oldest = created.iter().find(|f| !removed.contains(f)).cloned();
                    if oldest.as_ref() != Some(p) {
                        return Err(format!("retention-order: removed {:?} while the oldest live file is {:?}", p.file_name().unwrap(), oldest.map(|o| o.file_name().unwrap().to_owned())));
                    }
                    removed.push(p.clone());
                }
            }
        }
    }
    // item -> file, from the lines the writer issued
    let mut file_of: BTreeMap<u64, PathBuf> = BTreeMap::new();
    for op in &j {
        if let Op::Write(p, b) = op {
            if !is_idx(p) {
                if let Ok(m) = MetricItem::from_string(String::from_utf8_lossy(b).trim_end()) {
                    file_of.insert(m.verif_fields().3, p.clone());
                }
            }
        }
    }
    for w in &written {
        if !file_of.contains_key(&w.uid) {
            return Err(format!("line-not-issued: item {} of second {} was never written to any file", w.uid, w.sec));
        }
    }
    let retained: Vec<Written> = written.iter().filter(|w| !removed.contains(&file_of[&w.uid])).cloned().collect();
    // ---- queries on the final state
    let mut out = Outcome { queries: 0, crash_states: 0, files: created.len(), removed: removed.len() };
    let secs: Vec<u64> = {
        let mut s: Vec<u64> = written.iter().map(|w| w.sec).collect();
        s.dedup();
        s
    };
    let mut marks: Vec<u64> = vec![T_CREATE - 5000, T_CREATE];
    for s in &secs {
        marks.push(s * 1000);
        marks.push(s * 1000 + 999);
    }
    marks.push(secs.last().unwrap() * 1000 + 5000);
    let reused = searcher()?;
    for (bi, b) in marks.iter().enumerate() {
        // usize::MAX: the natural "no limit"
        for m in [1usize, 2, 3, 100, usize::MAX] {
            let want = expect_lines(&retained, *b, m);
            for (who, s) in [("fresh searcher", None), ("reused searcher", Some(&reused))] {
                let fresh;
                let s = match s {
                    Some(s) => s,
                    None => {
                        fresh = searcher()?;
                        &fresh
                    }
                };
                out.queries += 1;
                let got = guarded("find_from_time_with_max_lines", || s.find_from_time_with_max_lines(*b, m))?.map_err(|e| format!("search-error: find_from_time_with_max_lines({}, {}) with a {}: {}", b, m, who, e))?;
                let got: Vec<u64> = got.iter().map(|x| uid_of(x).0).collect();
                // the answer is the items from `b` on in write order: at least `m` of them (or all there
                // are), at most up to the end of the second in which the limit is reached
                let all_from_b = expect_lines(&retained, *b, usize::MAX);
                let min_len = m.min(all_from_b.len());
                let ok = got.len() >= min_len && got.len() <= want.len() && got[..] == want[..got.len()];
                if !ok {
                    return Err(format!("line-limit-query: find_from_time_with_max_lines(begin = {}{} ms, max_lines {}) with a {} returned items {:?}, written and retained: {:?}", if *b >= secs[0] * 1000 { "first second +" } else { "before first second, " }, *b as i64 - (secs[0] * 1000) as i64, m, who, got, want));
                }
            }
        }
        for e in marks.iter().skip(bi) {
            for r in [None, Some(0), Some(2)] {
                let want = expect_range(&retained, *b, *e, r);
                for (who, s) in [("fresh searcher", None), ("reused searcher", Some(&reused))] {
                    let fresh;
                    let s = match s {
                        Some(s) => s,
                        None => {
                            fresh = searcher()?;
                            &fresh
                        }
                    };
                    out.queries += 1;
                    let rn = r.map(|x| RES[x]).unwrap_or("");
                    let got = guarded("find_by_time_and_resource", || s.find_by_time_and_resource(*b, *e, rn))?.map_err(|e2| format!("search-error: find_by_time_and_resource with a {}: {}", who, e2))?;
                    let got: Vec<u64> = got.iter().map(|x| uid_of(x).0).collect();
                    if got != want {
                        return Err(format!("range-query: find_by_time_and_resource(first second {:+} ms .. first second {:+} ms, {:?}) with a {} returned items {:?}, written and retained: {:?}", *b as i64 - (secs[0] * 1000) as i64, *e as i64 - (secs[0] * 1000) as i64, rn, who, got, want));
                    }
                }
            }
        }
    }
    // ---- every byte prefix of the issued journal
    if c.crash {
        // position (op index) at which each item's line and its second's index entry are complete
        let mut line_done: BTreeMap<u64, usize> = BTreeMap::new();
        let mut idx_done: BTreeMap<u64, usize> = BTreeMap::new();
        let mut pending_sec: Option<u64> = None;
        for (i, op) in j.iter().enumerate() {
            if let Op::Write(p, b) = op {
                if is_idx(p) {
                    let v = u64::from_be_bytes(b[..8].try_into().unwrap());
                    match pending_sec {
                        None => pending_sec = Some(v),
                        Some(s) => {
                            idx_done.insert(s, i + 1);
                            pending_sec = None;
                        }
                    }
                } else if let Ok(m) = MetricItem::from_string(String::from_utf8_lossy(b).trim_end()) {
                    line_done.insert(m.verif_fields().3, i + 1);
                }
            }
        }
        let first = secs[0] * 1000;
        let last = secs.last().unwrap() * 1000 + 999;
        for n_ops in 0..=j.len() {
            let extras: Vec<usize> = if n_ops < j.len() {
                match &j[n_ops] {
                    Op::Write(_, b) => (0..b.len()).collect(),
                    _ => vec![0],
                }
            } else {
                vec![0]
            };
            for extra in extras {
                out.crash_states += 1;
                let fs = replay_journal(&j, n_ops, extra);
                materialise(&fs);
                // removed/truncated files at this point
                let alive = |w: &Written| fs.contains_key(&file_of[&w.uid]);
                let expected: Vec<Written> = written.iter().filter(|w| line_done[&w.uid] <= n_ops && idx_done.get(&w.sec).map(|d| *d <= n_ops).unwrap_or(false) && alive(w)).cloned().collect();
                let check = |what: &str, got: Vec<MetricItem>, want: Vec<u64>, all_candidates: &dyn Fn(u64) -> bool| -> Result<(), String> {
                    let got: Vec<u64> = got.iter().map(|x| uid_of(x).0).collect();
                    // expected is a subsequence of got
                    let mut it = got.iter();
                    for w in &want {
                        if !it.any(|g| g == w) {
                            return Err(format!("crash-lost-item: after a crash at journal operation {} (+{} bytes) {} returned {:?}; item {} (line and index entry completely written) is missing or out of order; expected at least {:?}", n_ops, extra, what, got, w, want));
                        }
                    }
                    let surplus: Vec<&u64> = got.iter().filter(|g| !want.contains(g)).collect();
                    // items whose line is complete but whose index entry is torn may or may not be
                    // found; beyond those at most the single torn last line may appear
                    let unexplained: Vec<&&u64> = surplus.iter().filter(|g| !all_candidates(***g)).collect();
                    if unexplained.len() > 1 {
                        return Err(format!("crash-phantom-items: after a crash at journal operation {} (+{} bytes) {} returned {:?}: more than the one torn line was misread", n_ops, extra, what, got));
                    }
                    Ok(())
                };
                let complete_line = |u: u64| line_done.get(&u).map(|d| *d <= n_ops).unwrap_or(false);
                let s = searcher()?;
                let mut bs = vec![first];
                bs.extend(secs.iter().map(|x| x * 1000));
                for b in bs {
                    out.queries += 2;
                    let got = guarded("find_by_time_and_resource after a crash", || s.find_by_time_and_resource(b, last, ""))?.map_err(|e| format!("crash-search-error: {}", e))?;
                    check("find_by_time_and_resource", got, expect_range(&expected, b, last, None), &complete_line)?;
                    let s2 = searcher()?;
                    let got = guarded("find_from_time_with_max_lines after a crash", || s2.find_from_time_with_max_lines(b, 1000))?.map_err(|e| format!("crash-search-error: {}", e))?;
                    check("find_from_time_with_max_lines", got, expect_lines(&expected, b, 1000), &complete_line)?;
                }
            }
        }
    }
    Ok(out)
}

/// length of one metric line as the writer issues it (all items of the histories have the same)
fn line_len() -> u64 {
    (MetricItem::verif_new(RES[0].into(), ResourceType::Common, T_CREATE, 1001, 2, 3, 4, 5, 0, 7).to_string().len() + 1) as u64
}

pub fn configs(thorough: bool) -> Vec<Cfg> {
    let mut v = vec![];
    let l = line_len();
    // gap 0 = a second write() call within the same second
    let gap_patterns: Vec<Vec<u64>> = vec![vec![1, 1, 1, 1], vec![2, 1, 60, 1], vec![1, 86400, 1, 1], vec![3, 1, 1, 86400, 2, 1], vec![1, 2, 1, 1, 60, 1], vec![1; 13], vec![1, 0, 1, 0, 0, 1]];
    let res_patterns: Vec<Vec<Vec<usize>>> = vec![vec![vec![0]], vec![vec![0, 1], vec![2]], vec![vec![0, 1, 2], vec![1], vec![2, 0]]];
    let mut k = 0;
    for gaps in &gap_patterns {
        for res in &res_patterns {
            // l, 2l, 3l: a file that is EXACTLY full after a write (the roll-over test is >=)
            for max_size in [1u64, 120, 500, 1 << 20, l, 2 * l, 3 * l] {
                for max_files in [1usize, 2, 3, 4] {
                    k += 1;
                    if !thorough && k % 5 != 0 {
                        continue;
                    }
                    if gaps.len() > 6 && max_size != 1 {
                        continue;
                    }
                    // crash exploration on a subset (it multiplies the work by the journal length)
                    let crash = if thorough { k % 3 == 0 } else { k % 40 == 0 };
                    v.push(Cfg { gaps: gaps.clone(), res: res.clone(), max_size, max_files, crash: crash && gaps.len() <= 6 });
                }
            }
        }
    }
    if thorough {
        // every write history of 1..=4 write calls over the gap alphabet {same second again (not
        // as the first call), next second, one second skipped, a minute later, the next day}, and
        // every history of exactly 5 calls over the alphabet without "same second";
        // x resource pattern x size limit x file count
        let mut all: Vec<Vec<u64>> = vec![];
        let mut level: Vec<Vec<u64>> = vec![vec![]];
        for depth in 0..5 {
            let alphabet: &[u64] = if depth < 4 { &[0, 1, 2, 61, 86400] } else { &[1, 2, 61, 86400] };
            let mut next = vec![];
            for g in &level {
                if depth == 4 && g.contains(&0) {
                    continue;
                }
                for a in alphabet {
                    if g.is_empty() && *a == 0 {
                        continue;
                    }
                    let mut h = g.clone();
                    h.push(*a);
                    next.push(h);
                }
            }
            all.extend(next.iter().cloned());
            level = next;
        }
        let mut k = 0usize;
        for gaps in &all {
            for res in &res_patterns {
                for max_size in [1u64, 120, 500, 1 << 20] {
                    for max_files in [1usize, 2, 3, 4] {
                        k += 1;
                        v.push(Cfg { gaps: gaps.clone(), res: res.clone(), max_size, max_files, crash: k % 61 == 0 });
                    }
                }
            }
        }
    }
    v
}

pub fn run(o: &Opts, stats: &mut Stats) -> Option<usize> {
    let restore = || config::reset_global_config(ConfigEntity::new());
    if let Some(path) = &o.replay {
        let v: serde_json::Value = serde_json::from_str(&std::fs::read_to_string(path).unwrap()).unwrap();
        let cfg: Cfg = serde_json::from_value(v["config"].clone()).unwrap();
        let r = run_cfg(&cfg);
        let _ = std::fs::remove_dir_all(dir());
        restore();
        match r {
            Err(why) => {
                println!("REPLAY-RESULT: violation: {}", why);
                stats.violations.push(Violation { sig: why.split(':').next().unwrap().into(), config: v["config"].clone(), trace: json!({}), why });
            }
            Ok(_) => println!("REPLAY-RESULT: no violation"),
        }
        return None;
    }
    for (i, c) in configs(o.thorough).iter().enumerate() {
        if !o.mine(i) {
            continue;
        }
        set_now_cfg(serde_json::to_string(c).unwrap());
        stats.configs += 1;
        stats.executions += 1;
        match run_cfg(c) {
            Ok(out) => {
                stats.transitions += out.queries;
                stats.bump("queries", out.queries);
                stats.bump("crash_states", out.crash_states);
                stats.bump("histories_with_retention_removals", (out.removed > 0) as u64);
                stats.bump("histories_with_rollover", (out.files > 1) as u64);
                for s in 0..=out.crash_states {
                    stats.states.insert(hash64(&(i, s)));
                }
                if out.files > 1 {
                    stats.nontrivial += 1;
                }
                stats.outcome(&format!("files{}-removed{}", out.files.min(5), out.removed.min(5)));
                if stats.samples.len() < 3 {
                    stats.sample(json!({"history": c, "queries": out.queries, "crash_states": out.crash_states, "log_files_created": out.files, "removed_by_retention": out.removed}));
                }
            }
            Err(why) => {
                if stats.violations.len() < 25 {
                    stats.violations.push(Violation { sig: why.split(':').next().unwrap().into(), config: serde_json::to_value(c).unwrap(), trace: json!({}), why });
                }
            }
        }
    }
    let _ = std::fs::remove_dir_all(dir());
    restore();
    None
}
