//! C07 — throttling paces admissions, bounds queueing and really delays the caller.
use super::{run_configs, Pass};
use crate::common::*;
use crate::explore::Subject;
use crate::sut::*;
use sentinel_core::base::{EntryStrongPtr, StatNode, TokenResult, TrafficType};
use sentinel_core::base::ResourceType;
use sentinel_core::{flow, hotspot, stat};
use sentinel_verif_rt::clock;
use serde::{Deserialize, Serialize};
use std::collections::BTreeMap;
use std::sync::Arc;

#[derive(Serialize, Deserialize, Clone, Debug)]
pub enum Cfg {
    /// flow throttling: `rate` per `interval_ms`, max queueing `maxq_ms`
    Flow { rate: f64, interval_ms: u32, maxq_ms: u32, phase_ns: u64 },
    /// two flow throttling rules on ONE resource (rates a and b per `interval_ms`): whatever the order
    /// in which they are evaluated, an admitted caller is released no earlier than the slot of EVERY rule
    Flow2 { rates: [f64; 2], interval_ms: u32, maxq_ms: u32 },
    /// two hotspot QPS throttling rules on ONE resource (parameter 0 and parameter 1, `qs[k]` per
    /// second): the same lower-bound oracle as Flow2, per rule
    Hotspot2 { qs: [u64; 2], maxq_ms: u64 },
    /// hotspot QPS throttling: `q` per `d` seconds per value
    Hotspot { q: u64, d: u64, maxq_ms: u64, overrides: Vec<(String, u64)> },
}

#[derive(Clone, Debug)]
pub enum Op {
    /// gap in the clock unit of the family (ns for flow, ms for hotspot)
    Arrive { gap: u64, batch: u32, value: &'static str, direct: bool },
}

const RES: &str = "c07-res";

pub struct C07 {
    cfg: Cfg,
    gaps: Vec<u64>,
    /// flow: last scheduled time (ns); hotspot: per value last scheduled time (ms)
    last_ns: i64,
    /// Flow2: lower bound of each rule's last scheduled slot (ns)
    lb: [i64; 2],
    last_ms: BTreeMap<String, u64>,
    /// scheduled times of admitted requests, per value ("" for flow), with their cost
    sched: Vec<(String, u64, u64)>,
    keep: Vec<EntryStrongPtr>,
    queued: u64,
    rejected: u64,
    passed: u64,
    at_max: u64,
}

impl C07 {
    pub fn new(cfg: &Cfg) -> Self {
        let mut gaps = match cfg {
            Cfg::Flow { rate, interval_ms, maxq_ms, .. } => {
                let cost = if *rate > 0.0 { (1.0 / rate * (*interval_ms as f64 * 1e6)) as u64 } else { 1_000_000 };
                let maxq = *maxq_ms as u64 * 1_000_000;
                vec![0, 1, cost.saturating_sub(1), cost, cost + 1, maxq, maxq + 1, 3 * cost, cost.saturating_sub(maxq), cost.saturating_sub(maxq).saturating_sub(1)]
            }
            Cfg::Flow2 { rates, interval_ms, maxq_ms } => {
                let mut g = vec![0, 1];
                for r in rates {
                    let cost = (1.0 / r * (*interval_ms as f64 * 1e6)) as u64;
                    g.extend([cost.saturating_sub(1), cost, cost + 1, 3 * cost]);
                }
                g.push(*maxq_ms as u64 * 1_000_000);
                g
            }
            Cfg::Hotspot2 { qs, maxq_ms } => {
                let mut g = vec![0, 1, *maxq_ms];
                for q in qs {
                    let cost = (1000f64 / *q as f64).round() as u64;
                    g.extend([cost.saturating_sub(1), cost, cost + 1, 3 * cost]);
                }
                g
            }
            Cfg::Hotspot { q, d, maxq_ms, .. } => {
                let cost = if *q > 0 { ((d * 1000) as f64 / *q as f64).round() as u64 } else { 1 };
                vec![0, 1, cost.saturating_sub(1), cost, cost + 1, *maxq_ms, maxq_ms + 1, 3 * cost, cost.saturating_sub(*maxq_ms), cost.saturating_sub(*maxq_ms) + 1]
            }
        };
        gaps.sort();
        gaps.dedup();
        C07 { cfg: cfg.clone(), gaps, last_ns: 0, lb: [0; 2], last_ms: BTreeMap::new(), sched: vec![], keep: vec![], queued: 0, rejected: 0, passed: 0, at_max: 0 }
    }
}

impl Subject for C07 {
    type Op = Op;
    fn reset(&mut self) {
        for e in self.keep.drain(..) {
            e.exit();
        }
        reset_world(T0_MS);
        self.last_ns = 0;
        self.lb = [0; 2];
        self.last_ms.clear();
        self.sched.clear();
        self.queued = 0;
        self.rejected = 0;
        self.passed = 0;
        self.at_max = 0;
        match &self.cfg {
            Cfg::Flow { rate, interval_ms, maxq_ms, phase_ns } => {
                clock::set_ns(T0_MS * 1_000_000 + phase_ns);
                flow::load_rules(vec![Arc::new(flow::Rule {
                    id: "f0".into(),
                    resource: RES.into(),
                    threshold: *rate,
                    stat_interval_ms: *interval_ms,
                    max_queueing_time_ms: *maxq_ms,
                    calculate_strategy: flow::CalculateStrategy::Direct,
                    control_strategy: flow::ControlStrategy::Throttling,
                    ..Default::default()
                })]);
            }
            Cfg::Flow2 { rates, interval_ms, maxq_ms } => {
                clock::set_ns(T0_MS * 1_000_000);
                flow::load_rules(
                    rates
                        .iter()
                        .enumerate()
                        .map(|(i, r)| {
                            Arc::new(flow::Rule {
                                id: format!("f{}", i),
                                resource: RES.into(),
                                threshold: *r,
                                stat_interval_ms: *interval_ms,
                                max_queueing_time_ms: *maxq_ms,
                                calculate_strategy: flow::CalculateStrategy::Direct,
                                control_strategy: flow::ControlStrategy::Throttling,
                                ..Default::default()
                            })
                        })
                        .collect(),
                );
            }
            Cfg::Hotspot2 { qs, maxq_ms } => {
                hotspot::load_rules(
                    qs.iter()
                        .enumerate()
                        .map(|(i, q)| {
                            Arc::new(hotspot::Rule {
                                id: format!("h{}", i),
                                resource: RES.into(),
                                metric_type: hotspot::MetricType::QPS,
                                control_strategy: hotspot::ControlStrategy::Throttling,
                                param_index: i as isize,
                                threshold: *q,
                                duration_in_sec: 1,
                                max_queueing_time_ms: *maxq_ms,
                                ..Default::default()
                            })
                        })
                        .collect(),
                );
            }
            Cfg::Hotspot { q, d, maxq_ms, overrides } => {
                hotspot::load_rules(vec![Arc::new(hotspot::Rule {
                    id: "h0".into(),
                    resource: RES.into(),
                    metric_type: hotspot::MetricType::QPS,
                    control_strategy: hotspot::ControlStrategy::Throttling,
                    threshold: *q,
                    duration_in_sec: *d,
                    max_queueing_time_ms: *maxq_ms,
                    specific_items: overrides.iter().cloned().collect(),
                    ..Default::default()
                })]);
            }
        }
        // vacuity guard: every rule of the configuration must really be in force
        let (want, got) = match &self.cfg {
            Cfg::Flow2 { .. } => (2, flow::get_rules_of_resource(&RES.to_string()).len()),
            Cfg::Hotspot2 { .. } => (2, hotspot::get_rules_of_resource(&RES.to_string()).len()),
            Cfg::Flow { rate, .. } => (1, if *rate >= 0.0 { flow::get_rules_of_resource(&RES.to_string()).len() } else { 1 }),
            Cfg::Hotspot { .. } => (1, hotspot::get_rules_of_resource(&RES.to_string()).len()),
        };
        if got != want {
            eprintln!("MACHINERY: C07 configuration {:?}: {} of {} harness rules are in force", self.cfg, got, want);
            std::process::exit(2);
        }
        clock::take_sleeps();
    }
    fn enabled(&self) -> Vec<Op> {
        let mut v = vec![];
        let hot = matches!(self.cfg, Cfg::Hotspot { .. });
        if let Cfg::Hotspot2 { .. } = self.cfg {
            for g in &self.gaps {
                v.push(Op::Arrive { gap: *g, batch: 1, value: "A", direct: false });
            }
            v.push(Op::Arrive { gap: 0, batch: 2, value: "A", direct: false });
            return v;
        }
        if let Cfg::Flow2 { .. } = self.cfg {
            for g in &self.gaps {
                v.push(Op::Arrive { gap: *g, batch: 1, value: "A", direct: false });
            }
            v.push(Op::Arrive { gap: 0, batch: 2, value: "A", direct: false });
            return v;
        }
        for g in &self.gaps {
            v.push(Op::Arrive { gap: *g, batch: 1, value: "A", direct: false });
        }
        v.push(Op::Arrive { gap: 0, batch: 2, value: "A", direct: false });
        v.push(Op::Arrive { gap: 0, batch: 0, value: "A", direct: false });
        let big = match &self.cfg {
            Cfg::Flow { rate, .. } => rate.ceil() as u32 + 1,
            Cfg::Hotspot { .. } | Cfg::Flow2 { .. } | Cfg::Hotspot2 { .. } => 3,
        };
        v.push(Op::Arrive { gap: 1, batch: big, value: "A", direct: false });
        v.push(Op::Arrive { gap: 0, batch: 1, value: "A", direct: true });
        if hot {
            for val in ["B", "C"] {
                v.push(Op::Arrive { gap: 0, batch: 1, value: val, direct: false });
                v.push(Op::Arrive { gap: 1, batch: 2, value: val, direct: false });
            }
        }
        v
    }
    fn step(&mut self, op: &Op) -> Result<(), String> {
        let Op::Arrive { gap, batch, value, direct } = op;
        clock::take_sleeps();
        match self.cfg.clone() {
            Cfg::Flow { rate, interval_ms, maxq_ms, .. } => {
                clock::advance_ns(*gap);
                let now = clock::get_ns() as i64;
                let maxq = maxq_ms as i64 * 1_000_000;
                let stat_ns = if interval_ms == 0 { 1_000_000_000f64 } else { interval_ms as f64 * 1e6 };
                // reference pacer. Outcome: None = always pass without schedule (batch 0),
                // Some(Err) reject, Some(Ok(s)) admitted for time s
                #[derive(PartialEq)]
                enum Ex {
                    Free,
                    Reject,
                    At(i64),
                    Either(i64),
                }
                let cost = ((*batch as f64).ceil() / rate * stat_ns) as i64;
                let ex = if *batch == 0 {
                    Ex::Free
                } else if rate <= 0.0 || *batch as f64 > rate {
                    Ex::Reject
                } else if self.last_ns + cost <= now {
                    Ex::At(now)
                } else {
                    let wait = self.last_ns + cost - now;
                    if wait > maxq + 1 {
                        Ex::Reject
                    } else if wait >= maxq - 1 && wait <= maxq + 1 && wait != maxq {
                        // float truncation of the cost may land one tick either side of the limit
                        Ex::Either(self.last_ns + cost)
                    } else if wait > maxq {
                        Ex::Reject
                    } else {
                        if wait == maxq {
                            self.at_max += 1;
                        }
                        Ex::At(self.last_ns + cost)
                    }
                };
                // run
                let (admitted, waited_ns): (bool, Option<u64>) = if *direct {
                    let node: Arc<dyn StatNode> = stat::get_or_create_resource_node(&RES.to_string(), &ResourceType::Common);
                    let tcs = flow::get_traffic_controller_list_for(&RES.to_string());
                    match tcs[0].perform_checking(node, *batch, 0) {
                        TokenResult::Pass => (true, None),
                        TokenResult::Wait(ns) => (true, Some(ns)),
                        TokenResult::Blocked(_) => (false, None),
                    }
                } else {
                    match build(RES, TrafficType::Outbound, *batch) {
                        Built::Ok(e) => {
                            self.keep.push(e);
                            (true, None)
                        }
                        Built::Blocked(b, _) => {
                            if b.block_type != "Flow" {
                                return Err(format!("block-type: {}", b.block_type));
                            }
                            (false, None)
                        }
                    }
                };
                let after = clock::get_ns() as i64;
                let sleeps = clock::take_sleeps();
                match ex {
                    Ex::Free => {
                        if !admitted {
                            return Err("rejected-batch-0: an entry carrying no tokens was rejected".into());
                        }
                    }
                    Ex::Reject => {
                        if admitted {
                            return Err(format!("admitted-beyond-max-queue: batch {} at +{} ns: wait would be {} ns, max {} ns (rate {}/{} ms)", batch, now - (T0_MS * 1_000_000) as i64, self.last_ns + cost - now, maxq, rate, interval_ms));
                        }
                        self.rejected += 1;
                    }
                    Ex::At(s) | Ex::Either(s) => {
                        let either = matches!(ex, Ex::Either(_));
                        if !admitted {
                            if either {
                                self.rejected += 1;
                                return Ok(());
                            }
                            return Err(format!("rejected-within-max-queue: batch {} at +{} ns: wait {} ns <= max {} ns", batch, now - (T0_MS * 1_000_000) as i64, s - now, maxq));
                        }
                        self.last_ns = s;
                        if s > now {
                            self.queued += 1;
                        } else {
                            self.passed += 1;
                        }
                        self.sched.push((String::new(), s as u64, cost as u64));
                        if *direct {
                            let w = waited_ns.unwrap_or(0) as i64;
                            // too short a wait releases the caller early; a longer one (rounding up) does not
                            // contradict the statement, within a millisecond
                            if now + w < s || now + w > s + 1_000_000 {
                                return Err(format!("wait-value: perform_checking answered wait {} ns, scheduled slot is {} ns away", w, s - now));
                            }
                        } else {
                            // the caller must really have been held until the scheduled time
                            if after < s {
                                return Err(format!("released-early: build() returned {} ns before the scheduled time (slept {:?} ns, wait {} ns)", s - after, sleeps, s - now));
                            }
                            // "held until its scheduled time": more than a millisecond beyond it is not "until"
                            if after > s + 1_000_000 {
                                return Err(format!("held-too-long: build() returned {} ns after the scheduled time", after - s));
                            }
                        }
                    }
                }
            }
            Cfg::Flow2 { rates, interval_ms, .. } => {
                clock::advance_ns(*gap);
                let now = clock::get_ns() as i64;
                let stat_ns = interval_ms as f64 * 1e6;
                let costs: Vec<i64> = rates.iter().map(|r| ((*batch as f64) / r * stat_ns) as i64).collect();
                let must_reject = rates.iter().any(|r| *batch as f64 > *r);
                let admitted = match build(RES, TrafficType::Outbound, *batch) {
                    Built::Ok(e) => {
                        self.keep.push(e);
                        true
                    }
                    Built::Blocked(b, _) => {
                        if b.block_type != "Flow" {
                            return Err(format!("block-type: {}", b.block_type));
                        }
                        false
                    }
                };
                let after = clock::get_ns() as i64;
                let sleeps = clock::take_sleeps();
                if admitted {
                    if must_reject {
                        return Err(format!("admitted-beyond-rate: batch {} exceeds a rule's rate {:?}", batch, rates));
                    }
                    // each rule's slot for this request is at least max(now, previous slot + cost);
                    // lb[k] is a lower bound of rule k's previous slot whatever the evaluation order
                    for k in 0..2 {
                        let slot_lb = if self.lb[k] == 0 { now } else { now.max(self.lb[k] + costs[k]) };
                        if after + 1 < slot_lb {
                            return Err(format!("released-early: two throttling rules: build() returned {} ns before rule f{}'s slot (slept {:?} ns; previous slot >= +{} ns, cost {} ns)", slot_lb - after, k, sleeps, self.lb[k] - (T0_MS * 1_000_000) as i64, costs[k]));
                        }
                        self.lb[k] = slot_lb;
                    }
                    if after > now {
                        self.queued += 1;
                    } else {
                        self.passed += 1;
                    }
                } else {
                    self.rejected += 1;
                }
            }
            Cfg::Hotspot2 { qs, .. } => {
                clock::advance_ms(*gap);
                let now = clock::get_ms() as i64;
                let costs: Vec<i64> = qs.iter().map(|q| ((*batch as u64 * 1000) as f64 / *q as f64).round() as i64).collect();
                let admitted = match build_full(RES, TrafficType::Outbound, *batch, Some(vec!["A".to_string(), "X".to_string()]), None) {
                    Built::Ok(e) => {
                        self.keep.push(e);
                        true
                    }
                    Built::Blocked(b, _) => {
                        if b.block_type != "HotSpotParamFlow" {
                            return Err(format!("block-type: {}", b.block_type));
                        }
                        false
                    }
                };
                let after = (clock::get_ns() / 1_000_000) as i64;
                let sleeps = clock::take_sleeps();
                if admitted {
                    for k in 0..2 {
                        let slot_lb = if self.lb[k] == 0 { now } else { now.max(self.lb[k] + costs[k]) };
                        if after < slot_lb {
                            return Err(format!("released-early: two hotspot throttling rules: build() returned {} ms before the slot of rule h{} (slept {:?} ns; previous slot >= +{} ms, cost {} ms)", slot_lb - after, k, sleeps, self.lb[k] - T0_MS as i64, costs[k]));
                        }
                        self.lb[k] = slot_lb;
                    }
                    if after > now {
                        self.queued += 1;
                    } else {
                        self.passed += 1;
                    }
                } else {
                    self.rejected += 1;
                }
            }
            Cfg::Hotspot { q, d, maxq_ms, overrides } => {
                clock::advance_ms(*gap);
                let now = clock::get_ms();
                let qv = overrides.iter().find(|(k, _)| k == value).map(|(_, q)| *q).unwrap_or(q);
                let cost = if qv > 0 { ((*batch as u64 * d * 1000) as f64 / qv as f64).round() as u64 } else { 0 };
                // reference pacer per value
                let (expect_admit, s, either) = if qv == 0 {
                    (false, 0, false)
                } else {
                    match self.last_ms.get(*value) {
                        None => (true, now, false),
                        Some(last) => {
                            let exp = last + cost;
                            if exp <= now {
                                (true, now, false)
                            } else if exp - now < maxq_ms {
                                (true, exp, false)
                            } else if exp - now == maxq_ms {
                                (true, exp, true)
                            } else {
                                (false, 0, false)
                            }
                        }
                    }
                };
                let (admitted, waited): (bool, Option<u64>) = if *direct {
                    let tcs = hotspot::get_traffic_controller_list_for(&RES.to_string());
                    match tcs[0].perform_checking(value.to_string(), *batch) {
                        TokenResult::Pass => (true, None),
                        TokenResult::Wait(ns) => (true, Some(ns)),
                        TokenResult::Blocked(_) => (false, None),
                    }
                } else {
                    match build_full(RES, TrafficType::Outbound, *batch, Some(vec![value.to_string()]), None) {
                        Built::Ok(e) => {
                            self.keep.push(e);
                            (true, None)
                        }
                        Built::Blocked(b, _) => {
                            if b.block_type != "HotSpotParamFlow" {
                                return Err(format!("block-type: {}", b.block_type));
                            }
                            (false, None)
                        }
                    }
                };
                let after_ns = clock::get_ns();
                let sleeps = clock::take_sleeps();
                if either {
                    self.at_max += 1;
                    if admitted {
                        self.last_ms.insert(value.to_string(), s);
                        self.sched.push((value.to_string(), s, cost));
                    }
                    // the caller must still be held if admitted
                    if admitted && !*direct && after_ns < s * 1_000_000 {
                        return Err(format!("released-early: build() returned {} ns before the scheduled time (slept {:?})", s * 1_000_000 - after_ns, sleeps));
                    }
                    return Ok(());
                }
                if admitted != expect_admit {
                    return Err(format!("{}: value {:?} batch {} at +{} ms, last slot {:?}, cost {} ms, max queue {} ms", if admitted { "admitted-beyond-max-queue" } else { "rejected-within-max-queue" }, value, batch, now - T0_MS, self.last_ms.get(*value).map(|l| *l as i64 - T0_MS as i64), cost, maxq_ms));
                }
                if admitted {
                    self.last_ms.insert(value.to_string(), s);
                    self.sched.push((value.to_string(), s, cost));
                    if s > now {
                        self.queued += 1;
                    } else {
                        self.passed += 1;
                    }
                    if *direct {
                        let w = waited.unwrap_or(0);
                        if now * 1_000_000 + w < s * 1_000_000 || now * 1_000_000 + w > s * 1_000_000 + 1_000_000 {
                            return Err(format!("wait-value: perform_checking answered a wait of {} (nanoseconds by the TokenResult contract), the scheduled slot is {} ms away", w, s - now));
                        }
                    } else {
                        if after_ns < s * 1_000_000 {
                            return Err(format!("released-early: build() returned {} ns before the scheduled time (wait {} ms, slept {:?} ns)", s * 1_000_000 - after_ns, s - now, sleeps));
                        }
                        if after_ns > s * 1_000_000 + 1_000_000 {
                            return Err(format!("held-too-long: build() returned {} ns after the scheduled time", after_ns - s * 1_000_000));
                        }
                    }
                } else {
                    self.rejected += 1;
                }
            }
        }
        Ok(())
    }
    fn finish(&mut self) -> Result<(), String> {
        // pacing invariant from the statement: consecutive admissions (per value) are scheduled
        // no closer together than the later one's cost, minus one clock tick of rounding
        let mut last: BTreeMap<String, u64> = BTreeMap::new();
        for (v, s, cost) in &self.sched {
            if let Some(p) = last.get(v) {
                if *s + 1 < p + cost {
                    return Err(format!("pacing: value {:?}: admissions scheduled {} apart, cost {}", v, s - p, cost));
                }
            }
            last.insert(v.clone(), *s);
        }
        Ok(())
    }
    fn nontrivial(&self) -> bool {
        self.queued >= 1 && self.rejected >= 1
    }
    fn outcome(&self) -> String {
        format!("p{}q{}r{}", self.passed.min(4), self.queued.min(4), self.rejected.min(4))
    }
    fn counters(&self) -> Vec<(&'static str, u64)> {
        vec![("queued", self.queued), ("rejected", self.rejected), ("wait_exactly_max_queueing", self.at_max)]
    }
}

pub fn configs(thorough: bool) -> Vec<Cfg> {
    let mut v = vec![];
    let mut k = 0;
    for rate in [1.0, 2.0, 7.0, 1000.0, 0.0, 2.5] {
        for interval_ms in [100u32, 1000, 10000, 0] {
            for maxq_ms in [0u32, 1, 50, 2000] {
                k += 1;
                if !thorough && k % 3 != 0 {
                    continue;
                }
                v.push(Cfg::Flow { rate, interval_ms, maxq_ms, phase_ns: [0, 1, 999_999][k % 3] });
            }
        }
    }
    // two throttling rules on one resource: slow + fast, fast + slow, equal
    let mut k2 = 0;
    let _ = k2;
    for rates in [[2.0, 1000.0], [1000.0, 2.0], [2.0, 5.0], [5.0, 2.0], [3.0, 3.0]] {
        for maxq_ms in [2000u32, 50] {
            k2 += 1;
            if !thorough && maxq_ms != 2000 {
                continue;
            }
            v.push(Cfg::Flow2 { rates, interval_ms: 1000, maxq_ms });
        }
    }
    for qs in [[2u64, 1000], [1000, 2], [2, 5], [5, 2]] {
        v.push(Cfg::Hotspot2 { qs, maxq_ms: 2000 });
        if thorough {
            v.push(Cfg::Hotspot2 { qs, maxq_ms: 50 });
        }
    }
    for q in [1u64, 3, 1000, 0] {
        for d in [1u64, 2, 3] {
            for maxq_ms in [0u64, 1, 50, 2000] {
                for overrides in [vec![], vec![("A".to_string(), 2u64)], vec![("B".to_string(), 0u64)]] {
                    k += 1;
                    // (k % 3 alone would alias with the three override tables and always pick the same one)
                    if !thorough && (k + k / 3) % 3 != 0 {
                        continue;
                    }
                    v.push(Cfg::Hotspot { q, d, maxq_ms, overrides: overrides.clone() });
                }
            }
        }
    }
    v
}

pub fn run(o: &Opts, stats: &mut Stats) -> Option<usize> {
    let cfgs = configs(o.thorough);
    let thorough = o.thorough;
    run_configs(o, stats, &cfgs, |c, _| C07::new(c), &move |_c: &Cfg| if thorough { vec![Pass { depth: 7, max_dev: 3 }] } else { vec![Pass { depth: 5, max_dev: 2 }] })
}
