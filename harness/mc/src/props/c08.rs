//! C08 — warm-up ramps from threshold/coldFactor up to threshold, and cools when idle.
//!
//! The explored space is a finite family of (rule, arrival grid, clock phase, demand profile);
//! each member is one deterministic run of real EntryBuilder::build() calls under the virtual
//! clock. Oracles are trajectory predicates taken from the statement, with one token of slack.
use crate::common::*;
use crate::sut::*;
use sentinel_core::base::TrafficType;
use sentinel_core::flow;
use sentinel_verif_rt::clock;
use serde::{Deserialize, Serialize};
use serde_json::json;
use std::sync::Arc;

#[derive(Serialize, Deserialize, Clone, Debug)]
pub struct Cfg {
    pub q: u32,
    /// cold factor as given in the rule (0 = default 3)
    pub c: u32,
    pub p: u32,
    pub grid_ms: u64,
    pub phase_ms: u64,
    pub profile: Profile,
}

#[derive(Serialize, Deserialize, Clone, Debug, PartialEq)]
pub enum Profile {
    /// offered >= q every second for 2p+6 s
    Saturating,
    /// floor(q/c)-1 requests at the start of every second: below the cold allowance
    BelowCold,
    /// every second, offer exactly what was admitted... (the allowance read from the calculator)
    AtAllowance,
    /// saturating for `on` s, idle for `idle` s, twice, then saturating for `on` s
    OnOff { on: u64, idle: u64 },
    /// saturating for `on` s, then ONE second offering exactly `m` requests, then idle for `idle` s
    /// (>= 2p), then saturating for 2 s: whatever token count the partial second leaves behind,
    /// the rule must be cold again
    Trickle { on: u64, m: u64, idle: u64 },
}

const RES: &str = "c08-res";

pub struct Run {
    /// admitted tokens per 500 ms bucket index (relative to the aligned start second)
    pub half: Vec<u64>,
    pub offered: Vec<u64>,
    pub builds: u64,
    pub allow_min: f64,
    pub allow_max: f64,
}

fn eff_c(c: u32) -> u32 {
    if c <= 1 {
        3
    } else {
        c
    }
}

/// seconds (relative, aligned) during which demand is on, and total length
fn schedule(cfg: &Cfg) -> (Vec<bool>, usize) {
    let p = cfg.p as u64;
    match &cfg.profile {
        Profile::Saturating | Profile::BelowCold | Profile::AtAllowance => {
            let n = (2 * p + 6) as usize;
            (vec![true; n], n)
        }
        Profile::OnOff { on, idle } => {
            let mut v = vec![];
            for _ in 0..2 {
                v.extend(std::iter::repeat(true).take(*on as usize));
                v.extend(std::iter::repeat(false).take(*idle as usize));
            }
            v.extend(std::iter::repeat(true).take(*on as usize + 2));
            let n = v.len();
            (v, n)
        }
        Profile::Trickle { on, idle, .. } => {
            let mut v = vec![];
            v.extend(std::iter::repeat(true).take(*on as usize));
            // the partial second (not a saturating one) and the idle period
            v.extend(std::iter::repeat(false).take(1 + *idle as usize));
            v.extend(std::iter::repeat(true).take(2));
            let n = v.len();
            (v, n)
        }
    }
}

pub fn simulate(cfg: &Cfg) -> Run {
    reset_world(T0_MS);
    flow::load_rules(vec![Arc::new(flow::Rule {
        id: "w0".into(),
        resource: RES.into(),
        threshold: cfg.q as f64,
        calculate_strategy: flow::CalculateStrategy::WarmUp,
        control_strategy: flow::ControlStrategy::Reject,
        warm_up_period_sec: cfg.p,
        warm_up_cold_factor: cfg.c,
        ..Default::default()
    })]);
    let tc = flow::get_traffic_controller_list_for(&RES.to_string())[0].clone();
    let (on, secs) = schedule(cfg);
    let mut run = Run { half: vec![0; secs * 2 + 2], offered: vec![0; secs + 1], builds: 0, allow_min: f64::MAX, allow_max: 0.0 };
    let per_instant = (cfg.q as u64 * cfg.grid_ms + 999) / 1000 + 1;
    let cold = (cfg.q / eff_c(cfg.c)) as u64;
    // demand starts `phase_ms` into the first second
    for s in 0..secs {
        if !on[s] {
            if let Profile::Trickle { on: n_on, m, .. } = &cfg.profile {
                if s as u64 == *n_on {
                    let t = T0_MS + s as u64 * 1000 + cfg.phase_ms;
                    clock::set_ms(t);
                    for _ in 0..*m {
                        run.builds += 1;
                        run.offered[s] += 1;
                        if let Built::Ok(e) = build(RES, TrafficType::Outbound, 1) {
                            run.half[((t - T0_MS) / 500) as usize] += 1;
                            e.exit();
                        }
                    }
                }
            }
            continue;
        }
        let sec_start = T0_MS + s as u64 * 1000;
        // self-pacing profiles offer one burst per second, always at the same offset, so that
        // every bucket-aligned 1 s window holds exactly one burst
        let paced = matches!(cfg.profile, Profile::BelowCold | Profile::AtAllowance);
        let mut t = sec_start + if paced || s == 0 || !on[s - 1] { cfg.phase_ms } else { 0 };
        let mut first_in_sec = true;
        while t < sec_start + 1000 {
            clock::set_ms(t);
            let n = match cfg.profile {
                Profile::BelowCold => {
                    if first_in_sec {
                        cold.saturating_sub(1)
                    } else {
                        0
                    }
                }
                Profile::AtAllowance => {
                    if first_in_sec {
                        // ask the calculator, as a caller that paces itself would
                        let a = tc.get_calculator().lock().unwrap().calculate_allowed_threshold(1, 0);
                        a.floor() as u64
                    } else {
                        0
                    }
                }
                _ => per_instant,
            };
            first_in_sec = false;
            for _ in 0..n {
                run.builds += 1;
                run.offered[s] += 1;
                if let Built::Ok(e) = build(RES, TrafficType::Outbound, 1) {
                    run.half[((t - T0_MS) / 500) as usize] += 1;
                    e.exit();
                }
            }
            if n > 0 {
                let a = tc.get_calculator().lock().unwrap().calculate_allowed_threshold(1, 0);
                run.allow_min = run.allow_min.min(a);
                run.allow_max = run.allow_max.max(a);
            }
            t += cfg.grid_ms;
        }
    }
    run
}

pub fn check(cfg: &Cfg, run: &Run) -> Result<String, String> {
    let q = cfg.q as u64;
    let c = eff_c(cfg.c) as u64;
    let p = cfg.p as u64;
    let (on, secs) = schedule(cfg);
    let a: Vec<u64> = (0..secs).map(|s| run.half[2 * s] + run.half[2 * s + 1]).collect();
    let floor_cold = q / c;
    let ceil_cold = (q + c - 1) / c;
    // (a) never more than q in any bucket-aligned 1 s window
    for h in 0..run.half.len() - 1 {
        if run.half[h] + run.half[h + 1] > q {
            return Err(format!("over-threshold: {} tokens admitted in the 1 s window starting at +{} ms (threshold {})", run.half[h] + run.half[h + 1], h * 500, q));
        }
    }
    // the calculator's allowance stays within [q/c, q]
    if run.builds > 0 && run.allow_min != f64::MAX && (run.allow_min < q as f64 / c as f64 - 1e-6 || run.allow_max > q as f64 + 1e-6) {
        return Err(format!("allowance-range: calculate_allowed_threshold ranged over [{}, {}], outside [q/c, q] = [{}, {}]", run.allow_min, run.allow_max, q as f64 / c as f64, q));
    }
    let full = |s: usize| on[s] && (cfg.phase_ms == 0 || (s > 0 && on[s - 1]));
    match &cfg.profile {
        Profile::BelowCold => {
            for s in 0..secs {
                if run.offered[s] != a[s] {
                    return Err(format!("rejected-below-cold-allowance: second {}: {} of {} requests admitted although demand ({}) stays below q/c = {}", s, a[s], run.offered[s], run.offered[s], floor_cold));
                }
            }
            return Ok(format!("all {} admitted", a.iter().sum::<u64>()));
        }
        Profile::AtAllowance => {
            for s in 0..secs {
                if run.offered[s] != a[s] {
                    return Err(format!("rejected-at-allowance: second {}: {} of {} requests admitted although the calculator announced an allowance of {}", s, a[s], run.offered[s], run.offered[s]));
                }
                if s > 0 && full(s) && full(s - 1) && a[s] + 1 < a[s - 1] {
                    return Err(format!("allowance-decreased: {} then {} with demand at the allowance", a[s - 1], a[s]));
                }
            }
            if a[secs - 1] + 1 < q {
                return Err(format!("never-reached-threshold: demand at the allowance for {} s, last second admitted {} < q = {}", secs, a[secs - 1], q));
            }
            return Ok(format!("ramp {:?}", a));
        }
        _ => {}
    }
    // saturating stretches
    let mut s = 0;
    let mut stretch_no = 0;
    let mut idle_before: u64 = u64::MAX; // cold at the very beginning
    while s < secs {
        if !on[s] {
            s += 1;
            continue;
        }
        let start = s;
        while s < secs && on[s] {
            s += 1;
        }
        let end = s; // [start, end)
        // (c)/(f): cold at the start of the stretch when it follows an idle period >= 2p s
        if idle_before >= 2 * p {
            if a[start] > ceil_cold + 1 {
                return Err(format!("not-cold: stretch {} starts {} s idle (>= 2p = {}) but its first second admitted {} > ceil(q/c)+1 = {}", stretch_no, if idle_before == u64::MAX { "after start-up, never".to_string() } else { idle_before.to_string() }, 2 * p, a[start], ceil_cold + 1));
            }
        }
        for k in start..end {
            // (b) never less than about q/c in a full saturated second
            if full(k) && a[k] + 1 < floor_cold {
                return Err(format!("below-cold-floor: full saturated second {} admitted {} < floor(q/c)-1 = {}", k, a[k], floor_cold.saturating_sub(1)));
            }
            // (d) the allowance never decreases while demand stays saturating
            if k > start && full(k) && full(k - 1) && a[k] + 1 < a[k - 1] {
                return Err(format!("allowance-decreased: consecutive saturated seconds {} and {} admitted {} then {}", k - 1, k, a[k - 1], a[k]));
            }
        }
        // (e) reaches q within 2p+2 s of saturation and stays there
        let first_full = (start..end).find(|k| full(*k));
        if let Some(f) = first_full {
            let deadline = f + (2 * p + 2) as usize;
            if end > deadline {
                let reached = (f..=deadline).find(|k| a[*k] + 1 >= q);
                match reached {
                    None => return Err(format!("too-slow: saturated from second {} but no second up to {} admitted >= q-1 = {}; admitted {:?}", f, deadline, q - 1, &a[f..=deadline])),
                    Some(r) => {
                        for k in r..end {
                            if full(k) && a[k] + 1 < q {
                                return Err(format!("fell-back: reached q at second {} but second {} admitted {}", r, k, a[k]));
                            }
                        }
                    }
                }
            }
        }
        // idle period that follows
        let mut idle = 0;
        while s < secs && !on[s] {
            idle += 1;
            s += 1;
        }
        idle_before = idle;
        stretch_no += 1;
    }
    Ok(format!("ramp {:?}", &a[..a.len().min(8)]))
}

pub fn configs(thorough: bool) -> Vec<Cfg> {
    let mut v = vec![];
    let qs: &[u32] = if thorough { &[30, 60, 100, 250, 500] } else { &[30, 100, 500] };
    let cs: &[u32] = if thorough { &[0, 2, 3, 4, 6] } else { &[0, 2, 6] };
    let ps: &[u32] = if thorough { &[1, 2, 5, 10, 20] } else { &[1, 2, 5] };
    let mut k = 0u64;
    for &q in qs {
        for &c in cs {
            if q < 10 * eff_c(c) {
                continue;
            }
            for &p in ps {
                let mut profiles = vec![Profile::Saturating, Profile::BelowCold, Profile::AtAllowance];
                let pp = p as u64;
                for on in [1u64, 3] {
                    for idle in [0, 1, pp, (2 * pp).saturating_sub(1), 2 * pp, 5 * pp] {
                        profiles.push(Profile::OnOff { on, idle });
                    }
                }
                // the partial second: every request count up to q (quick: one rule shape per q)
                if (thorough && p <= 5) || (q == 100 && p <= 2 && c != 6) {
                    for on in 1..=(2 * pp + 2) {
                        for m in 1..=q as u64 {
                            v.push(Cfg { q, c, p, grid_ms: 20, phase_ms: 0, profile: Profile::Trickle { on, m, idle: 2 * pp } });
                        }
                    }
                }
                for profile in profiles {
                    let variants: Vec<(u64, u64)> = if thorough { vec![(1, 0), (5, 250), (20, 999), (5, 0)] } else { vec![[(5, 0), (1, 250), (20, 0), (5, 999)][(k % 4) as usize]] };
                    k += 1;
                    if !thorough && matches!(profile, Profile::OnOff { .. }) && k % 3 != 0 {
                        continue;
                    }
                    for (grid_ms, phase_ms) in variants {
                        v.push(Cfg { q, c, p, grid_ms, phase_ms, profile: profile.clone() });
                    }
                }
            }
        }
    }
    // the ramp under saturating demand for thresholds that are NOT round numbers (q/c has a
    // fractional part) over the whole stated range of periods: thorough takes every q in 30..=120 and every 7th above
    // (7 is coprime with every cold factor, so every residue of q modulo c occurs)
    let sweep_q: Vec<u32> = if thorough { (30..=120).chain((121..=500).step_by(7)).collect() } else { (30..=500).step_by(13).chain([31, 41, 61]).collect() };
    let sweep_p: &[u32] = if thorough { &[1, 2, 3, 4, 5, 6, 7, 8, 9, 10, 11, 12, 13, 14, 15, 16, 17, 18, 19, 20] } else { &[1, 7, 8, 20] };
    for q in sweep_q {
        for c in [0u32, 2, 3, 4, 5, 6] {
            if q < 10 * eff_c(c) {
                continue;
            }
            for &p in sweep_p {
                v.push(Cfg { q, c, p, grid_ms: if q > 200 { 1 } else { 5 }, phase_ms: 0, profile: Profile::Saturating });
            }
        }
    }
    v
}

pub fn run(o: &Opts, stats: &mut Stats) -> Option<usize> {
    if let Some(path) = &o.replay {
        let v: serde_json::Value = serde_json::from_str(&std::fs::read_to_string(path).unwrap()).unwrap();
        if v["config"].get("history").is_some() {
            return super::c08s::run(o, stats);
        }
        let cfg: Cfg = serde_json::from_value(v["config"].clone()).unwrap();
        let (r1, r2) = (simulate(&cfg), simulate(&cfg));
        if r1.half != r2.half {
            eprintln!("MACHINERY: replay not deterministic");
            std::process::exit(2);
        }
        println!("admitted per 500 ms bucket: {:?}", r1.half);
        match check(&cfg, &r1) {
            Err(why) => {
                println!("REPLAY-RESULT: violation: {}", why);
                stats.violations.push(Violation { sig: why.split(':').next().unwrap().into(), config: v["config"].clone(), trace: json!({}), why });
            }
            Ok(_) => println!("REPLAY-RESULT: no violation"),
        }
        return None;
    }
    for (i, c) in configs(o.thorough).iter().enumerate() {
        if !o.mine(i) {
            continue;
        }
        set_now_cfg(serde_json::to_string(c).unwrap());
        stats.configs += 1;
        stats.executions += 1;
        let r = std::panic::catch_unwind(|| {
            let run = simulate(c);
            let verdict = check(c, &run);
            (run, verdict)
        });
        match r {
            Ok((run, verdict)) => {
                stats.transitions += run.builds;
                for (s, _) in run.offered.iter().enumerate() {
                    stats.states.insert(hash64(&(i, s)));
                }
                let (_, secs) = schedule(c);
                let a: Vec<u64> = (0..secs).map(|s| run.half[2 * s] + run.half[2 * s + 1]).collect();
                let distinct: std::collections::BTreeSet<u64> = a.iter().copied().collect();
                if distinct.len() >= 3 {
                    stats.nontrivial += 1;
                }
                match verdict {
                    Ok(o) => {
                        stats.outcome(&format!("{:?}", std::mem::discriminant(&c.profile)).chars().take(20).collect::<String>());
                        if stats.samples.len() < 3 {
                            stats.sample(json!({"config": c, "admitted_per_second": a, "outcome": o}));
                        }
                    }
                    Err(why) => {
                        if stats.violations.len() < 25 {
                            stats.violations.push(Violation { sig: why.split(':').next().unwrap().into(), config: serde_json::to_value(c).unwrap(), trace: json!({"admitted_per_second": a}), why });
                        }
                    }
                }
            }
            Err(e) => {
                stats.violations.push(Violation { sig: "panic".into(), config: serde_json::to_value(c).unwrap(), trace: json!({}), why: format!("panic@{}: {}", last_panic_loc(), panic_msg(e)) });
                return Some(i + 1);
            }
        }
    }
    // second part (c08s.rs): every demand history; its configurations are numbered after the family's
    let n_main = configs(o.thorough).len();
    let o2 = Opts { start_cfg: o.start_cfg.saturating_sub(n_main), ..o.clone() };
    super::c08s::run(&o2, stats).map(|r| r + n_main)
}
