mod common;
mod explore;
mod model;
mod props;
#[cfg(feature = "sched")]
mod sched;
mod sut;

use common::*;

fn main() {
    let args: Vec<String> = std::env::args().collect();
    if args.len() < 2 {
        eprintln!("usage: mc <ID> [--tier quick|thorough] [--shard k --nshards n] [--start-cfg i] [--out file] [--replay file]");
        std::process::exit(2);
    }
    let id = args[1].clone();
    let mut o = Opts { thorough: false, shard: 0, nshards: 1, start_cfg: 0, replay: None, max_violations: 1 };
    let mut out: Option<String> = None;
    let mut i = 2;
    while i < args.len() {
        let v = args.get(i + 1).cloned().unwrap_or_default();
        match args[i].as_str() {
            "--tier" => o.thorough = v == "thorough",
            "--shard" => o.shard = v.parse().unwrap(),
            "--nshards" => o.nshards = v.parse().unwrap(),
            "--start-cfg" => o.start_cfg = v.parse().unwrap(),
            "--out" => out = Some(v),
            "--replay" => o.replay = Some(v),
            x => {
                eprintln!("unknown option {}", x);
                std::process::exit(2)
            }
        }
        i += 2;
    }
    *OUT_PATH.lock().unwrap() = out.clone();
    install_panic_hook();
    if let (Some(p), None) = (&out, &o.replay) {
        start_heartbeat(p);
    }
    let t0 = std::time::Instant::now();
    let mut stats = Stats::default();
    let resume = props::run(&id, &o, &mut stats);
    let mut j = stats.to_json(resume);
    j["wall_s"] = serde_json::json!(t0.elapsed().as_secs_f64());
    let text = serde_json::to_string(&j).unwrap();
    match out {
        Some(p) => std::fs::write(p, text).unwrap(),
        None => println!("{}", text),
    }
}
