//! E-seq: deviation-bounded exhaustive enumeration of operation sequences on the real code.
//!
//! One *execution* = `reset` + a complete sequence of `depth` operations; the first `prefix.len()`
//! choices are replayed, every later choice is index 0 of `enabled()` (the default op). Level d of
//! the search holds every sequence with exactly d deviations (non-default choices), so the first
//! counterexample has the fewest deviations. Every sequence with <= max_dev deviations is executed
//! exactly once. A choice index out of range during replay is a machinery error (abort).
use crate::common::*;
use serde_json::{json, Value};
use std::panic::{catch_unwind, AssertUnwindSafe};

pub trait Subject {
    type Op: Clone + std::fmt::Debug;
    /// bring implementation + reference model to the initial state of this configuration
    fn reset(&mut self);
    /// alphabet at the current state, simplest first; index 0 = default. Empty = sequence ends.
    fn enabled(&self) -> Vec<Self::Op>;
    /// run `op` on the real code and on the model; Err(reason) = oracle violated
    fn step(&mut self, op: &Self::Op) -> Result<(), String>;
    /// end-of-sequence invariants computed from the recorded history
    fn finish(&mut self) -> Result<(), String> {
        Ok(())
    }
    /// canonical hash of the reached state (for state counting); default: none (prefix identity is used)
    fn key(&self) -> Option<u64> {
        None
    }
    /// was this execution non-trivial by the property's stated rule?
    fn nontrivial(&self) -> bool {
        false
    }
    /// coarse outcome label of the execution (for distinct-outcome counting)
    fn outcome(&self) -> String {
        String::new()
    }
    /// extra measured counters of the last execution (added to the shard statistics)
    fn counters(&self) -> Vec<(&'static str, u64)> {
        vec![]
    }
    /// signature for known-finding matching, from the failure reason
    fn sig(&self, why: &str) -> String {
        why.split(':').next().unwrap_or(why).to_string()
    }
}

pub struct Exec {
    pub choices: Vec<u8>,
    pub n_enabled: Vec<u8>,
    pub labels: Vec<String>,
    pub fail: Option<String>,
    pub panicked: bool,
}

pub fn run_one<S: Subject>(s: &mut S, prefix: &[u8], depth: usize, cfg_hash: u64, stats: &mut Stats, want_labels: bool) -> Exec {
    let mut x = Exec { choices: Vec::with_capacity(depth), n_enabled: Vec::with_capacity(depth), labels: vec![], fail: None, panicked: false };
    set_now_choices(prefix, depth, 0);
    s.reset();
    for i in 0..depth {
        let ops = s.enabled();
        if ops.is_empty() {
            break;
        }
        assert!(ops.len() < 255, "alphabet too large");
        let c = if i < prefix.len() { prefix[i] } else { 0 };
        if c as usize >= ops.len() {
            eprintln!("MACHINERY: replay divergence at step {} choice {} of {} (prefix {:?})", i, c, ops.len(), prefix);
            std::process::exit(2);
        }
        let op = ops[c as usize].clone();
        x.choices.push(c);
        x.n_enabled.push(ops.len() as u8);
        if want_labels {
            x.labels.push(format!("{:?}", op));
        }
        stats.transitions += 1;
        let r = catch_unwind(AssertUnwindSafe(|| s.step(&op)));
        match r {
            Ok(Ok(())) => {}
            Ok(Err(why)) => {
                x.fail = Some(why);
                break;
            }
            Err(e) => {
                x.fail = Some(format!("panic@{}: {}", last_panic_loc(), panic_msg(e).chars().take(200).collect::<String>()));
                x.panicked = true;
                break;
            }
        }
        let k = match s.key() {
            Some(k) => hash64(&(cfg_hash, k)),
            None => hash64(&(cfg_hash, &x.choices)),
        };
        stats.states.insert(k);
    }
    if x.fail.is_none() {
        match catch_unwind(AssertUnwindSafe(|| s.finish())) {
            Ok(Ok(())) => {}
            Ok(Err(why)) => x.fail = Some(why),
            Err(e) => {
                x.fail = Some(format!("panic@{}: {}", last_panic_loc(), panic_msg(e)));
                x.panicked = true;
            }
        }
    }
    stats.executions += 1;
    x
}

pub fn labels_of<S: Subject>(s: &mut S, choices: &[u8], depth: usize) -> Vec<String> {
    let mut tmp = Stats::default();
    run_one(s, choices, depth.min(choices.len()), 0, &mut tmp, true).labels
}

/// Explore one configuration. Returns false if the exploration of this configuration was cut
/// short by a violation (the violation is recorded in `stats`).
pub fn explore<S: Subject>(s: &mut S, cfg: &Value, depth: usize, max_dev: usize, stats: &mut Stats) -> bool {
    let cfg_hash = hash64(&cfg.to_string());
    set_now_cfg(cfg.to_string());
    stats.configs += 1;
    let mut level: Vec<Vec<u8>> = vec![vec![]];
    let mut sampled = 0;
    for d in 0..=max_dev {
        let mut next: Vec<Vec<u8>> = Vec::new();
        for prefix in &level {
            let x = run_one(s, prefix, depth, cfg_hash, stats, false);
            let nt = x.fail.is_none() && s.nontrivial();
            if nt {
                stats.nontrivial += 1;
            }
            for (k, v) in s.counters() {
                stats.bump(k, v);
            }
            let o = s.outcome();
            if !o.is_empty() {
                stats.outcome(&o);
            }
            if let Some(why) = x.fail {
                let labels = labels_of(s, &x.choices, depth);
                let sig = s.sig(&why);
                stats.violations.push(Violation { sig, config: cfg.clone(), trace: json!({"choices": x.choices, "ops": labels}), why });
                if x.panicked {
                    stats.need_restart = true;
                }
                return false;
            }
            if (nt && sampled < 1 && stats.samples.len() < 6) || (stats.samples.is_empty()) {
                if nt { sampled += 1; }
                let labels = labels_of(s, &x.choices, depth);
                stats.sample(json!({"config": cfg, "ops": labels, "outcome": o, "nontrivial": nt}));
            }
            if d < max_dev {
                for i in prefix.len()..x.choices.len() {
                    for alt in 1..x.n_enabled[i] {
                        let mut p = x.choices[..i].to_vec();
                        p.push(alt);
                        next.push(p);
                    }
                }
            }
        }
        level = next;
        if level.is_empty() {
            break;
        }
    }
    true
}

/// Replay a recorded choice vector (twice; observations must agree) and print the step trace.
pub fn replay<S: Subject>(s: &mut S, choices: &[u8]) -> Option<String> {
    let mut st = Stats::default();
    let a = run_one(s, choices, choices.len(), 0, &mut st, true);
    let b = run_one(s, choices, choices.len(), 0, &mut st, true);
    if a.fail != b.fail || a.labels != b.labels {
        eprintln!("MACHINERY: replay not deterministic: {:?} vs {:?}", a.fail, b.fail);
        std::process::exit(2);
    }
    for (i, l) in a.labels.iter().enumerate() {
        println!("  step {:2}: {}", i, l);
    }
    a.fail
}

pub fn cfg_value<T: serde::Serialize>(t: &T) -> Value {
    serde_json::to_value(t).unwrap()
}

/// Breadth-first search over CANONICAL states of the implementation (requires `Subject::key`).
/// A state is re-materialised by replaying its witness history from `reset`. First visits happen
/// at minimal depth, so bounded BFS with de-duplication is sound: a state is expanded once, with
/// the largest remaining depth. Every transition is still executed on the real code and checked
/// by the step oracle. Returns false if cut short by a violation.
pub fn bfs<S: Subject>(s: &mut S, cfg: &Value, max_depth: usize, max_states: usize, stats: &mut Stats) -> bool {
    use std::collections::{HashSet, VecDeque};
    let cfg_hash = hash64(&cfg.to_string());
    set_now_cfg(cfg.to_string());
    stats.configs += 1;
    let mut seen: HashSet<u64> = HashSet::new();
    let mut frontier: VecDeque<Vec<u8>> = VecDeque::new();
    frontier.push_back(vec![]);
    let mut max_seen_depth = 0;
    let mut fixpoint = true;
    while let Some(prefix) = frontier.pop_front() {
        let x = run_one(s, &prefix, prefix.len(), cfg_hash, stats, false);
        if let Some(why) = x.fail {
            let labels = labels_of(s, &x.choices, prefix.len());
            let sig = s.sig(&why);
            stats.violations.push(Violation { sig, config: cfg.clone(), trace: json!({"choices": x.choices, "ops": labels, "search": "bfs"}), why });
            if x.panicked {
                stats.need_restart = true;
            }
            return false;
        }
        let k = s.key().expect("bfs needs Subject::key");
        if !seen.insert(k) {
            continue;
        }
        if s.nontrivial() {
            stats.nontrivial += 1;
        }
        max_seen_depth = max_seen_depth.max(prefix.len());
        if seen.len() >= max_states {
            stats.caps_hit.push(format!("bfs: {} canonical states reached for {}", max_states, cfg));
            fixpoint = false;
            break;
        }
        if prefix.len() >= max_depth {
            fixpoint = false;
            continue;
        }
        let n = s.enabled().len();
        for i in 0..n {
            let mut p = prefix.clone();
            p.push(i as u8);
            frontier.push_back(p);
        }
    }
    stats.bump("bfs_canonical_states", seen.len() as u64);
    stats.bump("bfs_configurations_at_fixpoint", fixpoint as u64);
    stats.bump("bfs_max_depth_reached", 0);
    let e = stats.extra.entry("bfs_max_depth_reached".into()).or_insert(0);
    *e = (*e).max(max_seen_depth as u64);
    true
}
