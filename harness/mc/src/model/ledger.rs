//! Reference ledger: per statistics node the list of recorded events plus the in-flight count.
use super::window::*;
use std::collections::BTreeMap;

pub const NODE_RING: Ring = Ring { n: 20, len: 500 };
pub const NODE_W: u64 = 1000;
pub const INBOUND: &str = "__total_inbound_traffic__";

#[derive(Default, Clone, Debug)]
pub struct NodeRef {
    pub log: EventLog,
    pub inflight: i64,
}

#[derive(Default, Clone, Debug)]
pub struct Ledger {
    pub nodes: BTreeMap<String, NodeRef>,
}

impl Ledger {
    pub fn clear(&mut self) {
        self.nodes.clear();
        self.nodes.insert(INBOUND.to_string(), NodeRef::default());
    }
    pub fn node(&mut self, name: &str) -> &mut NodeRef {
        self.nodes.entry(name.to_string()).or_default()
    }
    fn targets(res: &str, inbound: bool) -> Vec<String> {
        let mut v = vec![res.to_string()];
        if inbound {
            v.push(INBOUND.to_string());
        }
        v
    }
    /// the resource was touched by an entry (its node exists from now on)
    pub fn touch(&mut self, res: &str) {
        self.node(res);
    }
    pub fn pass(&mut self, res: &str, inbound: bool, t: u64, batch: u64) {
        for n in Self::targets(res, inbound) {
            let nd = self.node(&n);
            nd.log.record(t, Kind::Pass, batch);
            nd.inflight += 1;
        }
    }
    pub fn block(&mut self, res: &str, inbound: bool, t: u64, batch: u64) {
        for n in Self::targets(res, inbound) {
            self.node(&n).log.record(t, Kind::Block, batch);
        }
    }
    pub fn complete(&mut self, res: &str, inbound: bool, t: u64, batch: u64, rt: u64) {
        for n in Self::targets(res, inbound) {
            let nd = self.node(&n);
            nd.log.record(t, Kind::Rt, rt);
            nd.log.record(t, Kind::Complete, batch);
            nd.inflight -= 1;
        }
    }
}
