//! Reference Closed/Open/Half-Open machine of one circuit breaker.
use std::collections::BTreeMap;

#[derive(Clone, Copy, Debug, PartialEq, Eq, Hash, serde::Serialize, serde::Deserialize)]
pub enum Strat {
    SlowRequestRatio,
    ErrorRatio,
    ErrorCount,
}
#[derive(Clone, Copy, Debug, PartialEq, Eq, Hash)]
pub enum St {
    Closed,
    Open,
    HalfOpen,
}

#[derive(Clone, Debug)]
pub struct BreakerRef {
    pub id: String,
    pub strat: Strat,
    pub min_request: u64,
    pub threshold: f64,
    pub interval: u64,
    pub buckets: u64,
    pub retry: u64,
    pub max_rt: u64,
    pub state: St,
    pub next_retry: u64,
    /// bucket start -> (bad, total); ring semantics applied on access
    pub counters: BTreeMap<u64, (u64, u64)>,
}

/// (breaker id, previous state, new state)
pub type Event = (String, St, St);

impl BreakerRef {
    pub fn new(id: &str, strat: Strat, min_request: u64, threshold: f64, interval: u64, bucket_count: u64, retry: u64, max_rt: u64) -> Self {
        let buckets = if bucket_count == 0 || interval % bucket_count != 0 { 1 } else { bucket_count };
        BreakerRef { id: id.into(), strat, min_request, threshold, interval, buckets, retry, max_rt, state: St::Closed, next_retry: 0, counters: BTreeMap::new() }
    }
    pub fn len(&self) -> u64 {
        self.interval / self.buckets
    }
    fn bucket(&self, t: u64) -> u64 {
        t - t % self.len()
    }
    /// buckets that are physically in the ring and not expired at `t`
    fn window(&self, t: u64) -> Vec<u64> {
        self.counters.keys().copied().filter(|s| t - s <= self.interval).collect()
    }
    /// A request asks to pass at time `t`. Returns (passes, became_probe).
    pub fn try_pass(&mut self, t: u64, log: &mut Vec<Event>) -> (bool, bool) {
        match self.state {
            St::Closed => (true, false),
            St::HalfOpen => (false, false),
            St::Open => {
                if t >= self.next_retry {
                    self.state = St::HalfOpen;
                    log.push((self.id.clone(), St::Open, St::HalfOpen));
                    (true, true)
                } else {
                    (false, false)
                }
            }
        }
    }
    /// The probe entry of this breaker was rejected (by this or another rule): back to Open,
    /// retry deadline untouched.
    pub fn probe_rejected(&mut self, log: &mut Vec<Event>) {
        if self.state == St::HalfOpen {
            self.state = St::Open;
            log.push((self.id.clone(), St::HalfOpen, St::Open));
        }
    }
    pub fn complete(&mut self, t: u64, rt: u64, err: bool, log: &mut Vec<Event>) {
        let b = self.bucket(t);
        // ring: the slot of the current bucket is recycled
        let slot = (t / self.len()) % self.buckets;
        let len = self.len();
        let nb = self.buckets;
        self.counters.retain(|s, _| *s == b || (*s / len) % nb != slot);
        let bad = match self.strat {
            Strat::SlowRequestRatio => rt > self.max_rt,
            _ => err,
        };
        let c = self.counters.entry(b).or_insert((0, 0));
        if bad {
            c.0 += 1;
        }
        c.1 += 1;
        let (mut bads, mut total) = (0u64, 0u64);
        for s in self.window(t) {
            bads += self.counters[&s].0;
            total += self.counters[&s].1;
        }
        match self.state {
            St::HalfOpen => {
                if bad {
                    self.state = St::Open;
                    self.next_retry = t + self.retry;
                    log.push((self.id.clone(), St::HalfOpen, St::Open));
                } else {
                    self.state = St::Closed;
                    log.push((self.id.clone(), St::HalfOpen, St::Closed));
                    for s in self.window(t) {
                        self.counters.insert(s, (0, 0));
                    }
                }
            }
            St::Closed => {
                let tripped = match self.strat {
                    Strat::ErrorCount => bads >= self.threshold as u64,
                    _ => bads as f64 / total as f64 >= self.threshold,
                };
                if total >= self.min_request && tripped {
                    self.state = St::Open;
                    self.next_retry = t + self.retry;
                    log.push((self.id.clone(), St::Closed, St::Open));
                }
            }
            St::Open => {}
        }
    }
}
