pub mod window;
