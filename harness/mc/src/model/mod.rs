pub mod window;
pub mod ledger;
pub mod breaker;
