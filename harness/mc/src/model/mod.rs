pub mod window;
pub mod ledger;
