//! Reference model of the sliding-window statistics: the list of recorded events and a
//! window predicate. Deliberately boring: every read is a fold over the whole event list.

#[derive(Clone, Copy, Debug, PartialEq, Eq, Hash, serde::Serialize)]
pub enum Kind {
    Pass,
    Block,
    Complete,
    Error,
    Rt,
}
pub const KINDS: [Kind; 5] = [Kind::Pass, Kind::Block, Kind::Complete, Kind::Error, Kind::Rt];

#[derive(Clone, Debug, Default)]
pub struct EventLog {
    /// (time ms, kind, count), non-decreasing times
    pub events: Vec<(u64, Kind, u64)>,
}

/// Geometry of the underlying ring: `n` buckets of `len` ms.
#[derive(Clone, Copy, Debug, PartialEq, Eq, Hash, serde::Serialize)]
pub struct Ring {
    pub n: u64,
    pub len: u64,
}

impl EventLog {
    pub fn record(&mut self, t: u64, k: Kind, c: u64) {
        self.events.push((t, k, c));
    }
    pub fn clear(&mut self) {
        self.events.clear()
    }
    /// Events whose bucket start b = t - t%len lies in [lo, hi] (inclusive, may be negative).
    fn in_buckets<'a>(&'a self, ring: Ring, lo: i128, hi: i128) -> impl Iterator<Item = &'a (u64, Kind, u64)> + 'a {
        self.events.iter().filter(move |(t, _, _)| {
            let b = (*t - *t % ring.len) as i128;
            lo <= b && b <= hi
        })
    }
    /// Bucket-start range covered by a reader of window `w` ms at time `t`: the `w/len` most recent
    /// buckets, the current one included.
    pub fn range(ring: Ring, w: u64, t: u64) -> (i128, i128) {
        let end = (t - t % ring.len) as i128;
        (end - w as i128 + ring.len as i128, end)
    }
    pub fn sum(&self, ring: Ring, w: u64, t: u64, k: Kind) -> u64 {
        let (lo, hi) = Self::range(ring, w, t);
        self.in_buckets(ring, lo, hi).filter(|e| e.1 == k).map(|e| e.2).sum()
    }
    /// min over the buckets of the window of the per-bucket minimum Rt event; 60000 if none
    pub fn min_rt(&self, ring: Ring, w: u64, t: u64) -> u64 {
        let (lo, hi) = Self::range(ring, w, t);
        self.in_buckets(ring, lo, hi).filter(|e| e.1 == Kind::Rt).map(|e| e.2).min().unwrap_or(60000).min(60000)
    }
    /// largest single-bucket sum of `k` within the window
    pub fn max_bucket(&self, ring: Ring, w: u64, t: u64, k: Kind) -> u64 {
        let (lo, hi) = Self::range(ring, w, t);
        let mut m = std::collections::BTreeMap::new();
        for e in self.in_buckets(ring, lo, hi).filter(|e| e.1 == k) {
            *m.entry(e.0 - e.0 % ring.len).or_insert(0u64) += e.2;
        }
        m.values().copied().max().unwrap_or(0)
    }
    /// Is the bucket that holds time `tau` still physically retained in the ring at time `t`, i.e.
    /// has no later recorded event fallen into the same slot with a different bucket start?
    pub fn retained(&self, ring: Ring, tau: u64) -> bool {
        let b = tau - tau % ring.len;
        let slot = (tau / ring.len) % ring.n;
        !self.events.iter().any(|(t2, _, _)| {
            let b2 = *t2 - *t2 % ring.len;
            b2 > b && (*t2 / ring.len) % ring.n == slot
        })
    }
}
