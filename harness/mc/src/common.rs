//! Shared plumbing: shard statistics, violations, JSON output, resets of process-wide state.
use serde::Serialize;
use serde_json::{json, Value};
use std::collections::{BTreeMap, HashSet};

/// Realistic epoch base (ms); divisible by 420 000 so that every bucket length used by the
/// harnesses (3,7,100,250,300,500,700,1000,1500,2000,2500,3000,5000,10000,20000 ms) is aligned at T0.
pub const T0_MS: u64 = 1_700_000_400_000;

#[derive(Serialize, Clone, Debug)]
pub struct Violation {
    /// narrow signature used to match known findings
    pub sig: String,
    pub config: Value,
    /// operation sequence / schedule that reproduces it
    pub trace: Value,
    pub why: String,
}

#[derive(Default)]
pub struct Stats {
    pub configs: u64,
    pub executions: u64,
    pub transitions: u64,
    pub states: HashSet<u64>,
    /// states that are distinct by construction (nodes of a schedule tree): counted, not stored
    pub states_counted: u64,
    pub nontrivial: u64,
    pub outcomes: BTreeMap<String, u64>,
    pub samples: Vec<Value>,
    pub violations: Vec<Violation>,
    pub caps_hit: Vec<String>,
    pub extra: BTreeMap<String, u64>,
    pub info: BTreeMap<String, String>,
    pub need_restart: bool,
}

impl Stats {
    pub fn outcome(&mut self, o: &str) {
        *self.outcomes.entry(o.to_string()).or_insert(0) += 1;
    }
    pub fn bump(&mut self, k: &str, n: u64) {
        *self.extra.entry(k.to_string()).or_insert(0) += n;
    }
    pub fn sample(&mut self, v: Value) {
        if self.samples.len() < 6 {
            self.samples.push(v);
        }
    }
    pub fn to_json(&self, next_cfg: Option<usize>) -> Value {
        json!({
            "configs": self.configs,
            "executions": self.executions,
            "transitions": self.transitions,
            "states": self.states.len() as u64 + self.states_counted,
            "nontrivial": self.nontrivial,
            "outcomes": self.outcomes,
            "samples": self.samples,
            "violations": self.violations,
            "caps_hit": self.caps_hit,
            "extra": self.extra,
            "info": self.info,
            "resume_cfg": next_cfg,
        })
    }
}

pub fn hash64<T: std::hash::Hash>(t: &T) -> u64 {
    use std::hash::Hasher;
    let mut h = std::collections::hash_map::DefaultHasher::new();
    t.hash(&mut h);
    h.finish()
}

/// Shard options handed to every property runner.
#[derive(Clone, Debug)]
pub struct Opts {
    pub thorough: bool,
    pub shard: usize,
    pub nshards: usize,
    pub start_cfg: usize,
    pub replay: Option<String>,
    pub max_violations: usize,
}

impl Opts {
    pub fn mine(&self, idx: usize) -> bool {
        beat();
        idx >= self.start_cfg && idx % self.nshards == self.shard
    }
}

// ---- progress heart-beat (stall detection by the driver) -------------------------------------
// Every execution bumps BEAT and records what is being executed; a plain OS thread writes that to
// `<out>.progress` twice a second. The driver reports a HANG (a verdict: the code under test did
// not return) only when the counter stands still for the stall limit; merely running out of the
// overall wall budget is a machinery exit, never a verdict.
pub static BEAT: std::sync::atomic::AtomicU64 = std::sync::atomic::AtomicU64::new(0);
pub static NOW_CFG: std::sync::Mutex<String> = std::sync::Mutex::new(String::new());
pub static NOW_CHOICES: std::sync::Mutex<(Vec<u8>, usize, u64)> = std::sync::Mutex::new((Vec::new(), 0, 0));
pub type ProgressExtra = Box<dyn Fn() -> Value + Send + Sync>;
pub static PROGRESS_EXTRA: std::sync::Mutex<Option<ProgressExtra>> = std::sync::Mutex::new(None);
#[inline]
pub fn beat() {
    BEAT.fetch_add(1, std::sync::atomic::Ordering::Relaxed);
}
/// the configuration (JSON text, as a replay file would hold it) whose executions follow
pub fn set_now_cfg(cfg: String) {
    beat();
    *NOW_CFG.lock().unwrap_or_else(|e| e.into_inner()) = cfg;
}
/// the choice prefix of the execution that starts now (later choices are the default 0)
pub fn set_now_choices(prefix: &[u8], depth: usize, pass: u64) {
    beat();
    let mut g = NOW_CHOICES.lock().unwrap_or_else(|e| e.into_inner());
    g.0.clear();
    g.0.extend_from_slice(prefix);
    g.1 = depth;
    g.2 = pass;
}
pub fn start_heartbeat(out: &str) {
    let path = format!("{}.progress", out);
    std::thread::spawn(move || loop {
        std::thread::sleep(std::time::Duration::from_millis(500));
        let b = BEAT.load(std::sync::atomic::Ordering::Relaxed);
        let cfg = NOW_CFG.try_lock().map(|g| g.clone()).unwrap_or_default();
        let (mut ch, depth, pass) = NOW_CHOICES.try_lock().map(|g| g.clone()).unwrap_or_default();
        while ch.len() < depth {
            ch.push(0);
        }
        let extra = match PROGRESS_EXTRA.try_lock() {
            Ok(g) => g.as_ref().map(|f| f()).unwrap_or(Value::Null),
            Err(_) => Value::Null,
        };
        let j = json!({"beat": b, "config": cfg, "choices": ch, "pass": pass, "extra": extra});
        let tmp = format!("{}.tmp", path);
        if std::fs::write(&tmp, j.to_string()).is_ok() {
            let _ = std::fs::rename(&tmp, &path);
        }
    });
}

pub fn panic_msg(e: Box<dyn std::any::Any + Send>) -> String {
    if let Some(s) = e.downcast_ref::<String>() {
        s.clone()
    } else if let Some(s) = e.downcast_ref::<&str>() {
        s.to_string()
    } else {
        "non-string panic".into()
    }
}

thread_local! {
    pub static LAST_PANIC_LOC: std::cell::RefCell<String> = std::cell::RefCell::new(String::new());
}

/// Where shard results are written (`--out`); also the base name of the crash-capture file.
pub static OUT_PATH: std::sync::Mutex<Option<String>> = std::sync::Mutex::new(None);
/// Hook installed by the schedule explorer: called with (location, message) at panic time,
/// i.e. before unwinding, so a failure is on disk even if the process aborts while unwinding.
pub static PANIC_TAP: std::sync::Mutex<Option<Box<dyn Fn(&str, &str) + Send + Sync>>> = std::sync::Mutex::new(None);

/// Silence the default panic printer but remember where the panic happened.
pub fn install_panic_hook() {
    std::panic::set_hook(Box::new(|info| {
        let loc = info
            .location()
            .map(|l| {
                let f = l.file();
                let f = f.rsplit("sentinel-core/src/").next().unwrap_or(f);
                format!("{}:{}", f, l.line())
            })
            .unwrap_or_default();
        LAST_PANIC_LOC.with(|c| *c.borrow_mut() = loc.clone());
        if let Ok(g) = PANIC_TAP.try_lock() {
            if let Some(f) = g.as_ref() {
                let msg = if let Some(s) = info.payload().downcast_ref::<String>() {
                    s.clone()
                } else if let Some(s) = info.payload().downcast_ref::<&str>() {
                    s.to_string()
                } else {
                    String::new()
                };
                f(&loc, &msg);
            }
        }
        if std::env::var("MC_PANIC_VERBOSE").is_ok() {
            eprintln!("panic: {}", info);
        }
    }));
}
pub fn last_panic_loc() -> String {
    LAST_PANIC_LOC.with(|c| c.borrow().clone())
}

/// Parse what `EntryBuilder::build()` reports for a blocked entry:
/// `TokenResult::Blocked: BlockError { block_type: X, block_msg: "..", rule: Some(Rule { id: "..", .. }), snapshot_value: Some(v) }`
#[derive(Debug, Clone, Default, PartialEq)]
pub struct BlockInfo {
    pub block_type: String,
    pub rule_id: Option<String>,
    pub snapshot: Option<String>,
    pub msg: String,
}
pub fn parse_block(text: &str) -> BlockInfo {
    let mut b = BlockInfo::default();
    if let Some(i) = text.find("block_type: ") {
        let rest = &text[i + 12..];
        let end = rest.find(|c: char| c == ',' || c == ' ').unwrap_or(rest.len());
        b.block_type = rest[..end].to_string();
        // Other(n) keeps its parenthesis
        if rest.starts_with("Other(") {
            let e = rest.find(')').unwrap_or(end);
            b.block_type = rest[..=e].to_string();
        }
    }
    if let Some(i) = text.find("block_msg: \"") {
        let rest = &text[i + 12..];
        if let Some(e) = rest.find('"') {
            b.msg = rest[..e].to_string();
        }
    }
    if let Some(i) = text.find("rule: Some(") {
        let rest = &text[i..];
        if let Some(j) = rest.find("id: \"") {
            let r2 = &rest[j + 5..];
            if let Some(e) = r2.find('"') {
                b.rule_id = Some(r2[..e].to_string());
            }
        }
    }
    if let Some(i) = text.rfind("snapshot_value: Some(") {
        let rest = &text[i + 21..];
        // up to the matching ')' of Some(
        let mut depth = 1;
        let mut end = rest.len();
        for (k, c) in rest.char_indices() {
            if c == '(' {
                depth += 1
            } else if c == ')' {
                depth -= 1;
                if depth == 0 {
                    end = k;
                    break;
                }
            }
        }
        b.snapshot = Some(rest[..end].to_string());
    }
    b
}
