//! Thin wrappers around the real sentinel-core API used by all sequential harnesses.
use crate::common::*;
use sentinel_core::base::{EntryStrongPtr, ParamsList, ParamsMap, TrafficType};
use sentinel_core::{circuitbreaker, flow, hotspot, isolation, stat, system, EntryBuilder};
use sentinel_verif_rt::clock;

/// Fresh world: no rules in any manager, no statistics nodes, inbound node blank, clock at `t_ms`.
pub fn reset_world(t_ms: u64) {
    flow::clear_rules();
    isolation::clear_rules();
    hotspot::clear_rules();
    circuitbreaker::clear_rules();
    circuitbreaker::clear_state_change_listeners();
    system::clear_rules();
    stat::reset_resource_map();
    stat::inbound_node().verif_reset();
    sentinel_core::system_metric::verif_set_system_load(0.0);
    sentinel_core::system_metric::verif_set_cpu_usage(0.0);
    sentinel_core::system_metric::verif_set_memory_usage(0);
    clock::set_ms(t_ms);
    clock::take_sleeps();
    set_entry_resource_type(0);
}

pub fn now_ms() -> u64 {
    clock::get_ms()
}
pub fn advance_ms(d: u64) {
    clock::advance_ms(d)
}

pub enum Built {
    Ok(EntryStrongPtr),
    Blocked(BlockInfo, String),
}
impl Built {
    pub fn is_ok(&self) -> bool {
        matches!(self, Built::Ok(_))
    }
}

/// Resource type the harness entries declare (0 = the builder's default Common, 1 = Web, 2 = RPC):
/// nothing in any property depends on it, so checks vary it.
pub static ENTRY_RESOURCE_TYPE: std::sync::atomic::AtomicU8 = std::sync::atomic::AtomicU8::new(0);
pub fn set_entry_resource_type(t: u8) {
    ENTRY_RESOURCE_TYPE.store(t, std::sync::atomic::Ordering::SeqCst);
}

pub fn build_full(res: &str, traffic: TrafficType, batch: u32, args: Option<ParamsList>, att: Option<ParamsMap>) -> Built {
    let mut b = EntryBuilder::new(res.to_string()).with_traffic_type(traffic).with_batch_count(batch);
    match ENTRY_RESOURCE_TYPE.load(std::sync::atomic::Ordering::SeqCst) {
        1 => b = b.with_resource_type(sentinel_core::base::ResourceType::Web),
        2 => b = b.with_resource_type(sentinel_core::base::ResourceType::RPC),
        _ => {}
    }
    if args.is_some() {
        b = b.with_args(args);
    }
    if att.is_some() {
        b = b.with_attachments(att);
    }
    match b.build() {
        Ok(e) => Built::Ok(e),
        Err(e) => {
            let t = e.to_string();
            Built::Blocked(parse_block(&t), t)
        }
    }
}
pub fn build(res: &str, traffic: TrafficType, batch: u32) -> Built {
    build_full(res, traffic, batch, None, None)
}
