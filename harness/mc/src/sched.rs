//! E-sched: preemption-bounded exhaustive DFS over thread interleavings of the real code.
//!
//! shuttle runs the scenario's threads as coroutines and asks `Pb` at every operation on
//! shuttle::sync::{Mutex,RwLock,Once,atomic::*} and thread::{spawn,join,yield_now} which task runs
//! next. `Pb` enumerates ALL choice vectors whose number of preemptions (switching away from a
//! task that is still enabled and did not yield) is <= bound. Enabled tasks are put in a canonical
//! order: the running task first (if enabled and not yielding), then ascending ids; a yielding
//! task is not eligible while another task is enabled (fairness: spin loops terminate). While replaying a recorded prefix the number
//! of enabled tasks must equal the recorded one; a divergence is a machinery error (exit 2).
use crate::common::*;
use serde_json::json;
use shuttle::scheduler::{Schedule, Scheduler, Task, TaskId};
use std::sync::{Arc, Mutex};

#[derive(Clone, Debug)]
pub struct Dec {
    pub choice: u8,
    pub n: u8,
    pub cost_before: u8,
    pub cur_enabled: bool,
}

#[derive(Default)]
pub struct Shared {
    pub stack: Vec<Dec>,
    pub started: bool,
    pub done: bool,
    pub execs: u64,
    pub steps: u64,
    pub nodes: u64,
    pub preempted_execs: u64,
    pub max_steps: usize,
    pub cap: u64,
    pub capped: bool,
    pub fixed: bool,
    pub last_len: usize,
    pub trace: Vec<(u8, u8)>,
}

pub struct Pb {
    bound: u8,
    step: usize,
    sh: Arc<Mutex<Shared>>,
    fair: Fair,
    one_shot: bool,
}

/// Fair scheduling (Musuvathi & Qadeer, "Fair stateless model checking"): when task t yields (a
/// spin / retry loop) its priority drops below every other task enabled at that moment; t is not
/// eligible again while one of those tasks is enabled and has not been scheduled since. This makes
/// every spin loop finite and, unlike "the yielder just goes last", also rules out two spinners
/// handing the processor to each other for ever while the lock holder never runs.
/// The relation is a function of the execution's history, so a replayed prefix rebuilds it exactly.
#[derive(Default)]
pub struct Fair {
    waits: Vec<(TaskId, Vec<TaskId>)>,
}
impl Fair {
    pub fn reset(&mut self) {
        self.waits.clear();
    }
    /// canonical order of the tasks that may run now: the running task first (if enabled, not
    /// yielding and not held back by fairness), then ascending ids. Second value: is switching
    /// away from the running task a preemption?
    pub fn order(&mut self, runnable: &[&Task], current: Option<TaskId>, is_yielding: bool) -> (Vec<TaskId>, bool) {
        let mut ids: Vec<TaskId> = runnable.iter().map(|t| t.id()).collect();
        ids.sort();
        if let (Some(c), true) = (current, is_yielding) {
            if ids.contains(&c) {
                let others: Vec<TaskId> = ids.iter().copied().filter(|x| *x != c).collect();
                self.waits.retain(|(t, _)| *t != c);
                if !others.is_empty() {
                    self.waits.push((c, others));
                }
            }
        }
        let mut elig: Vec<TaskId> = ids.iter().copied().filter(|t| !self.waits.iter().any(|(w, us)| w == t && us.iter().any(|u| ids.contains(u)))).collect();
        if elig.is_empty() {
            // cannot happen (the task that yielded last was scheduled after the others' yields); stay total
            elig = ids.clone();
        }
        let cur_enabled = match current {
            Some(c) => elig.contains(&c) && !is_yielding,
            None => false,
        };
        if let (Some(c), true) = (current, cur_enabled) {
            elig.retain(|x| *x != c);
            elig.insert(0, c);
        }
        (elig, cur_enabled)
    }
    pub fn scheduled(&mut self, id: TaskId) {
        for (_, us) in self.waits.iter_mut() {
            us.retain(|u| *u != id);
        }
        self.waits.retain(|(_, us)| !us.is_empty());
    }
}

fn cost_of(d: &Dec, choice: u8) -> u8 {
    if d.cur_enabled && choice != 0 {
        1
    } else {
        0
    }
}

impl Scheduler for Pb {
    fn new_execution(&mut self) -> Option<Schedule> {
        let mut sh = self.sh.lock().unwrap();
        if sh.done {
            return None;
        }
        if let Ok(mut c) = CAPTURED.try_lock() {
            *c = None;
        }
        if sh.started {
            sh.execs += 1;
            sh.steps += self.step as u64;
            sh.max_steps = sh.max_steps.max(self.step);
            let final_cost = sh.stack.last().map(|d| d.cost_before + cost_of(d, d.choice)).unwrap_or(0);
            if final_cost > 0 {
                sh.preempted_execs += 1;
            }
            if sh.fixed || (sh.cap > 0 && sh.execs >= sh.cap) {
                sh.capped = !sh.fixed;
                sh.done = true;
                return None;
            }
            let step = self.step;
            sh.stack.truncate(step);
            if !advance(&mut sh.stack, self.bound) {
                sh.done = true;
                return None;
            }
            if self.one_shot {
                // one execution per Runner (and per OS thread, see `explore_scenario`): the next
                // Runner starts directly with the vector just computed
                sh.started = false;
                return None;
            }
        }
        sh.started = true;
        self.step = 0;
        self.fair.reset();
        beat();
        Some(Schedule::new(0))
    }

    fn next_task(&mut self, runnable: &[&Task], current: Option<TaskId>, is_yielding: bool) -> Option<TaskId> {
        let (ids, cur_enabled) = self.fair.order(runnable, current, is_yielding);
        let mut sh = self.sh.lock().unwrap();
        let i = self.step;
        let choice = if i < sh.stack.len() {
            let d = &sh.stack[i];
            if d.n as usize != ids.len() {
                eprintln!("MACHINERY: schedule replay divergence at step {}: recorded {} enabled tasks, now {}", i, d.n, ids.len());
                std::process::exit(2);
            }
            d.choice
        } else {
            if sh.fixed {
                // replaying a recorded schedule: past its end take the default
            }
            let cost_before = sh.stack.last().map(|d| d.cost_before + cost_of(d, d.choice)).unwrap_or(0);
            sh.stack.push(Dec { choice: 0, n: ids.len() as u8, cost_before, cur_enabled });
            sh.nodes += 1;
            0
        };
        self.step += 1;
        sh.last_len = self.step;
        self.fair.scheduled(ids[choice as usize]);
        Some(ids[choice as usize])
    }

    fn next_u64(&mut self) -> u64 {
        0
    }
}

/// Move the stack to the next unexplored choice vector within the bound. False = exhausted.
fn advance(stack: &mut Vec<Dec>, bound: u8) -> bool {
    loop {
        match stack.pop() {
            None => return false,
            Some(mut d) => {
                let mut c = d.choice + 1;
                while c < d.n {
                    if d.cost_before + cost_of(&d, c) <= bound {
                        d.choice = c;
                        stack.push(d);
                        return true;
                    }
                    c += 1;
                }
            }
        }
    }
}

/// First panic of the current execution, captured at panic time by the panic hook.
#[derive(Default, Clone)]
pub struct Captured {
    pub loc: String,
    pub msg: String,
}
pub static CAPTURED: Mutex<Option<Captured>> = Mutex::new(None);
/// (scenario index, scenario name, shared DFS state) of the scenario being explored
pub static CURRENT: Mutex<Option<(usize, String, u8, Arc<Mutex<Shared>>)>> = Mutex::new(None);

fn shorten(loc: &str) -> String {
    match loc.find("/src/") {
        Some(i) if loc.contains(".cargo/registry") => {
            let pre = &loc[..i];
            format!("{}{}", pre.rsplit('/').next().unwrap_or(""), &loc[i..])
        }
        _ => loc.to_string(),
    }
}

pub fn install_tap() {
    *PANIC_TAP.lock().unwrap() = Some(Box::new(|loc, msg| {
        let mut c = match CAPTURED.try_lock() {
            Ok(c) => c,
            Err(_) => return,
        };
        if c.is_some() {
            return; // secondary panic while unwinding
        }
        *c = Some(Captured { loc: shorten(loc), msg: msg.chars().take(600).collect() });
        // persist at once: the process may abort while unwinding suspended tasks
        if let (Ok(cur), Ok(out)) = (CURRENT.try_lock(), OUT_PATH.try_lock()) {
            if let (Some((idx, name, bound, sh)), Some(out)) = (cur.as_ref(), out.as_ref()) {
                if let Ok(s) = sh.try_lock() {
                    let len = s.last_len;
                    let schedule: Vec<u8> = s.stack.iter().take(len).map(|d| d.choice).collect();
                    let j = json!({"cfg": idx, "scenario": name, "preemption_bound": bound, "schedule": schedule, "loc": shorten(loc), "msg": msg.chars().take(600).collect::<String>()});
                    let _ = std::fs::write(format!("{}.fail", out), j.to_string());
                }
            }
        }
    }));
}

pub struct Failure {
    pub schedule: Vec<u8>,
    pub msg: String,
    pub kind: String,
    pub loc: String,
}

fn config() -> shuttle::Config {
    let mut cfg = shuttle::Config::new();
    cfg.silence_warnings = true;
    cfg.failure_persistence = shuttle::FailurePersistence::None;
    cfg.max_steps = shuttle::MaxSteps::FailAfter(20_000);
    cfg.stack_size = 0x40000;
    cfg
}

pub fn classify(msg: &str) -> String {
    if msg.contains("deadlock") {
        "deadlock".into()
    } else if msg.contains("exceeded max_steps") || msg.contains("max_steps") {
        "livelock".into()
    } else if msg.starts_with("ORACLE") {
        "oracle".into()
    } else {
        "panic".into()
    }
}

pub type Body = Arc<dyn Fn() + Send + Sync + 'static>;
/// name prefix of scenarios whose executions each get a fresh OS thread
pub const OWN_THREAD: &str = "own-thread:";

/// Explore one scenario exhaustively up to `bound` preemptions. Up to `max_fail` failing
/// schedules are collected (the DFS resumes after each failing vector).
pub fn explore_scenario(idx: usize, name: &str, bound: u8, cap: u64, body: Body, max_fail: usize) -> (Shared, Vec<Failure>) {
    let sh = Arc::new(Mutex::new(Shared { cap, ..Default::default() }));
    *CURRENT.lock().unwrap() = Some((idx, name.to_string(), bound, sh.clone()));
    let mut fails = vec![];
    loop {
        let one_shot = name.starts_with(OWN_THREAD);
        let pb = Pb { bound, step: 0, sh: sh.clone(), fair: Fair::default(), one_shot };
        let b = body.clone();
        // scenarios named "own-thread:..." run every execution on a fresh OS thread: std
        // `thread_local!` state of the code under test (shuttle tasks share their OS thread) then
        // cannot leak from one execution into the next. It costs a thread and a set of coroutine
        // stacks per execution, so only scenarios that exercise such state ask for it; elsewhere
        // a leak shows as a divergence while replaying a schedule prefix (machinery exit).
        let r = if one_shot {
            std::thread::spawn(move || shuttle::Runner::new(pb, config()).run(move || b())).join()
        } else {
            std::panic::catch_unwind(std::panic::AssertUnwindSafe(move || shuttle::Runner::new(pb, config()).run(move || b())))
        };
        match r {
            Ok(_) => {
                if sh.lock().unwrap().done {
                    break;
                }
            }
            Err(e) => {
                let cap = CAPTURED.lock().unwrap().clone();
                let (msg, loc) = match cap {
                    Some(c) => (c.msg, c.loc),
                    None => (panic_msg(e), shorten(&last_panic_loc())),
                };
                let mut s = sh.lock().unwrap();
                let len = s.last_len;
                let schedule: Vec<u8> = s.stack.iter().take(len).map(|d| d.choice).collect();
                // account for the failed execution and move on to the next vector
                s.execs += 1;
                s.steps += len as u64;
                let final_cost = s.stack.iter().take(len).last().map(|d| d.cost_before + cost_of(d, d.choice)).unwrap_or(0);
                if final_cost > 0 {
                    s.preempted_execs += 1;
                }
                s.stack.truncate(len);
                let more = advance(&mut s.stack, bound);
                // after `advance` the next execution must start directly (no second advance)
                s.started = false;
                if !more {
                    s.done = true;
                }
                let kind = classify(&msg);
                fails.push(Failure { schedule, msg: msg.chars().take(600).collect(), kind, loc });
                if !more || fails.len() >= max_fail {
                    if fails.len() >= max_fail && more {
                        s.capped = true;
                    }
                    break;
                }
            }
        }
    }
    let s = std::mem::take(&mut *sh.lock().unwrap());
    (s, fails)
}

/// Run exactly one recorded schedule. Returns the failure, if any.
pub fn replay_schedule(schedule: &[u8], body: Body) -> Option<String> {
    let stack: Vec<Dec> = schedule.iter().map(|c| Dec { choice: *c, n: 0, cost_before: 0, cur_enabled: false }).collect();
    let sh = Arc::new(Mutex::new(Shared { stack, fixed: true, ..Default::default() }));
    let pb = PbReplay { step: 0, sh: sh.clone(), trace: std::env::var("MC_TRACE").is_ok(), fair: Fair::default() };
    let r = std::thread::spawn(move || shuttle::Runner::new(pb, config()).run(move || body())).join();
    match r {
        Ok(_) => None,
        Err(e) => Some(panic_msg(e)),
    }
}

/// Replays a fixed choice vector (no divergence check on n: the vector was recorded by `Pb`, and
/// an out-of-range choice aborts).
struct PbReplay {
    step: usize,
    sh: Arc<Mutex<Shared>>,
    trace: bool,
    fair: Fair,
}
impl Scheduler for PbReplay {
    fn new_execution(&mut self) -> Option<Schedule> {
        let mut sh = self.sh.lock().unwrap();
        if sh.started {
            return None;
        }
        sh.started = true;
        self.step = 0;
        Some(Schedule::new(0))
    }
    fn next_task(&mut self, runnable: &[&Task], current: Option<TaskId>, is_yielding: bool) -> Option<TaskId> {
        let (ids, cur_enabled) = self.fair.order(runnable, current, is_yielding);
        let sh = self.sh.lock().unwrap();
        let c = if self.step < sh.stack.len() { sh.stack[self.step].choice as usize } else { 0 };
        if c >= ids.len() {
            eprintln!("MACHINERY: replay divergence at step {}: choice {} of {} enabled", self.step, c, ids.len());
            std::process::exit(2);
        }
        if self.trace {
            println!("  step {:3}: run task {:?} (choice {} of {:?}){}", self.step, ids[c], c, ids, if c != 0 && cur_enabled { "  <-- preemption" } else { "" });
        }
        self.step += 1;
        self.fair.scheduled(ids[c]);
        Some(ids[c])
    }
    fn next_u64(&mut self) -> u64 {
        0
    }
}

pub fn make_sig(scenario: &str, kind: &str, msg: &str, loc: &str) -> String {
    format!("{}:{}:{}", scenario, kind, if kind == "oracle" { msg.split(':').nth(1).unwrap_or("").trim().to_string() } else if kind == "deadlock" || kind == "livelock" { String::new() } else { loc.to_string() })
}

/// A named scenario of a property.
pub struct Scenario {
    pub name: String,
    pub bound: u8,
    pub cap: u64,
    pub body: Body,
}

/// Outcome labels recorded by scenario bodies (plain std mutex: not a scheduling point).
/// Counted per distinct label; the first labels are also kept in order for the replay comparison.
pub struct Outcomes {
    pub counts: std::collections::BTreeMap<String, u64>,
    pub first: Vec<String>,
}
pub static OUTCOMES: Mutex<Outcomes> = Mutex::new(Outcomes { counts: std::collections::BTreeMap::new(), first: Vec::new() });
pub fn outcome(s: String) {
    let mut o = OUTCOMES.lock().unwrap_or_else(|e| e.into_inner());
    if o.first.len() < 256 {
        o.first.push(s.clone());
    }
    match o.counts.get_mut(&s) {
        Some(c) => *c += 1,
        None => {
            o.counts.insert(s, 1);
        }
    }
}
fn take_outcomes() -> Outcomes {
    let mut o = OUTCOMES.lock().unwrap_or_else(|e| e.into_inner());
    Outcomes { counts: std::mem::take(&mut o.counts), first: std::mem::take(&mut o.first) }
}

pub fn run_scenarios(o: &Opts, stats: &mut Stats, scenarios: Vec<Scenario>) -> Option<usize> {
    if let Some(path) = &o.replay {
        let v: serde_json::Value = serde_json::from_str(&std::fs::read_to_string(path).expect("replay file")).expect("json");
        let name = v["config"]["scenario"].as_str().unwrap().to_string();
        let schedule: Vec<u8> = serde_json::from_value(v["trace"]["schedule"].clone()).unwrap();
        let sc = scenarios.into_iter().find(|s| s.name == name).expect("scenario of the replay file not found");
        println!("replaying schedule of {} steps on scenario {}", schedule.len(), name);
        let a = replay_schedule(&schedule, sc.body.clone());
        let oa: Vec<String> = take_outcomes().first;
        std::env::remove_var("MC_TRACE");
        let b = replay_schedule(&schedule, sc.body.clone());
        let ob: Vec<String> = take_outcomes().first;
        if a.is_some() != b.is_some() || oa != ob {
            eprintln!("MACHINERY: replay not deterministic: {:?}/{:?} vs {:?}/{:?}", a, oa, b, ob);
            std::process::exit(2);
        }
        match a {
            Some(msg) => {
                println!("REPLAY-RESULT: violation: {}", msg.chars().take(400).collect::<String>());
                stats.violations.push(Violation { sig: v["sig"].as_str().unwrap_or("").to_string(), config: v["config"].clone(), trace: v["trace"].clone(), why: msg });
            }
            None => println!("REPLAY-RESULT: no violation (outcomes {:?})", oa),
        }
        return None;
    }
    install_tap();
    // what the heart-beat thread reports while a schedule is running (a stall = the execution
    // never reached its next scheduling point: an unbounded loop without a yield)
    *PROGRESS_EXTRA.lock().unwrap() = Some(Box::new(|| {
        if let Ok(cur) = CURRENT.try_lock() {
            if let Some((_, name, bound, sh)) = cur.as_ref() {
                if let Ok(s) = sh.try_lock() {
                    let schedule: Vec<u8> = s.stack.iter().take(s.last_len).map(|d| d.choice).collect();
                    return json!({"scenario": name, "preemption_bound": bound, "schedule": schedule});
                }
            }
        }
        serde_json::Value::Null
    }));
    for (idx, sc) in scenarios.iter().enumerate() {
        if !o.mine(idx) {
            continue;
        }
        // flush what is known so far: if the process aborts inside this scenario the driver
        // resumes after it
        if let Some(out) = OUT_PATH.lock().unwrap().as_ref() {
            let _ = std::fs::write(out, stats.to_json(Some(idx)).to_string());
        }
        let _ = take_outcomes();
        // one failing schedule per scenario: after a failed execution (suspended tasks, held
        // locks) the engine's state is not trusted any more, and the process is restarted
        let (sh, fails) = explore_scenario(idx, &sc.name, sc.bound, sc.cap, sc.body.clone(), 1);
        *CURRENT.lock().unwrap() = None;
        stats.configs += 1;
        stats.executions += sh.execs;
        stats.transitions += sh.steps;
        stats.nontrivial += sh.preempted_execs;
        stats.bump("schedule_tree_nodes", sh.nodes);
        stats.bump("max_steps_in_one_schedule", 0);
        let e = stats.extra.entry("max_steps_in_one_schedule".into()).or_insert(0);
        *e = (*e).max(sh.max_steps as u64);
        // states = distinct schedule prefixes explored (nodes of the schedule tree)
        stats.states_counted += sh.nodes;
        if sh.capped {
            stats.caps_hit.push(format!("scenario {}: stopped after {} schedules (cap)", sc.name, sh.execs));
        }
        let distinct = take_outcomes().counts;
        for (k, v) in &distinct {
            *stats.outcomes.entry(format!("{}: {}", sc.name, k)).or_insert(0) += v;
        }
        stats.sample(json!({"scenario": sc.name, "preemption_bound": sc.bound, "schedules": sh.execs, "max_steps": sh.max_steps, "distinct_outcomes": distinct.keys().collect::<Vec<_>>()}));
        let failed = !fails.is_empty();
        let mut seen = std::collections::BTreeSet::new();
        for f in fails {
            let sig = make_sig(&sc.name, &f.kind, &f.msg, &f.loc);
            if !seen.insert(sig.clone()) {
                continue;
            }
            stats.violations.push(Violation { sig, config: json!({"scenario": sc.name, "preemption_bound": sc.bound}), trace: json!({"schedule": f.schedule}), why: format!("{} [{}] {}", f.kind, f.loc, f.msg) });
        }
        if failed {
            // the caps entry of explore_scenario ("stopped after N failures") is expected here
            stats.caps_hit.retain(|c| !c.contains(&sc.name));
            return Some(idx + 1);
        }
    }
    None
}
