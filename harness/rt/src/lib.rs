//! Runtime seams for model checking sentinel-core (lives in /verif, not in the repo).
//!
//! The repo's sources refer to this crate only under `cfg(sentinel_verif)`.
//! Default features: every primitive is the production one (std / lazy_static).
//! Feature `sched`: locks, atomics, Once, lazy statics and yield are shuttle's, so that a
//! controlled scheduler sees every synchronisation operation; HashMap/HashSet get a fixed
//! hasher so that iteration order (hence the sequence of lock operations) is replayable.

pub mod clock;
pub mod collections;
pub mod journal;
pub mod sync;

#[cfg(not(feature = "sched"))]
pub use lazy_static::lazy_static;
#[cfg(feature = "sched")]
pub use shuttle::lazy_static;
