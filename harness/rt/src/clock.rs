//! Virtual clock: one nanosecond counter owned by the harness. 0 = "not virtual" (real time).
//! Plain std atomics on purpose: reading the clock is not a scheduling point.
use std::sync::atomic::{AtomicU64, Ordering};
use std::sync::Mutex;

static NOW_NS: AtomicU64 = AtomicU64::new(0);
static SLEEPS: Mutex<Vec<u64>> = Mutex::new(Vec::new());

#[inline]
pub fn now_ns() -> Option<u64> {
    match NOW_NS.load(Ordering::SeqCst) {
        0 => None,
        v => Some(v),
    }
}
#[inline]
pub fn now_ms() -> Option<u64> {
    now_ns().map(|v| v / 1_000_000)
}
pub fn set_ns(v: u64) {
    NOW_NS.store(v, Ordering::SeqCst)
}
pub fn set_ms(v: u64) {
    set_ns(v * 1_000_000)
}
pub fn advance_ns(d: u64) {
    NOW_NS.fetch_add(d, Ordering::SeqCst);
}
pub fn advance_ms(d: u64) {
    advance_ns(d * 1_000_000)
}
pub fn get_ns() -> u64 {
    NOW_NS.load(Ordering::SeqCst)
}
pub fn get_ms() -> u64 {
    get_ns() / 1_000_000
}
/// Called by the repo's sleep hooks. Returns true when the clock is virtual: the sleep then
/// advances the clock by exactly the requested amount and is logged.
pub fn sleep_ns(ns: u64) -> bool {
    if now_ns().is_none() {
        return false;
    }
    NOW_NS.fetch_add(ns, Ordering::SeqCst);
    SLEEPS.lock().unwrap_or_else(|e| e.into_inner()).push(ns);
    true
}
pub fn take_sleeps() -> Vec<u64> {
    std::mem::take(&mut *SLEEPS.lock().unwrap_or_else(|e| e.into_inner()))
}
