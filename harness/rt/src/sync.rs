//! `std::sync` look-alike. Without feature `sched` these ARE the std types.
#[cfg(not(feature = "sched"))]
pub use std::sync::{
    Arc, Mutex, MutexGuard, Once, RwLock, RwLockReadGuard, RwLockWriteGuard, Weak,
};
#[cfg(not(feature = "sched"))]
pub mod atomic {
    pub use std::sync::atomic::*;
}
#[cfg(not(feature = "sched"))]
#[inline]
pub fn yield_now() {
    std::thread::yield_now()
}

#[cfg(feature = "sched")]
pub use shuttle::sync::{Mutex, MutexGuard, Once, RwLock, RwLockReadGuard, RwLockWriteGuard};
// shuttle 0.9.3's Arc is std's Arc (no scheduling points); use std's directly.
#[cfg(feature = "sched")]
pub use std::sync::{Arc, Weak};
#[cfg(feature = "sched")]
pub mod atomic {
    pub use shuttle::sync::atomic::*;
}
#[cfg(feature = "sched")]
#[inline]
pub fn yield_now() {
    shuttle::thread::yield_now()
}
