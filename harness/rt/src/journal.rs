//! Record-only journal of file operations issued by the metric-log writer.
use std::path::{Path, PathBuf};
use std::sync::atomic::{AtomicBool, Ordering};
use std::sync::Mutex;

#[derive(Debug, Clone, PartialEq, Eq)]
pub enum Op {
    Create(PathBuf),
    Write(PathBuf, Vec<u8>),
    Remove(PathBuf),
}

static ENABLED: AtomicBool = AtomicBool::new(false);
static LOG: Mutex<Vec<Op>> = Mutex::new(Vec::new());

pub fn enable(on: bool) {
    ENABLED.store(on, Ordering::SeqCst)
}
fn push(op: Op) {
    if ENABLED.load(Ordering::SeqCst) {
        LOG.lock().unwrap_or_else(|e| e.into_inner()).push(op)
    }
}
pub fn create<P: AsRef<Path>>(p: P) {
    push(Op::Create(p.as_ref().to_path_buf()))
}
pub fn write<P: AsRef<Path>>(p: P, bytes: &[u8]) {
    push(Op::Write(p.as_ref().to_path_buf(), bytes.to_vec()))
}
pub fn remove<P: AsRef<Path>>(p: P) {
    push(Op::Remove(p.as_ref().to_path_buf()))
}
pub fn take() -> Vec<Op> {
    std::mem::take(&mut *LOG.lock().unwrap_or_else(|e| e.into_inner()))
}
pub fn snapshot() -> Vec<Op> {
    LOG.lock().unwrap_or_else(|e| e.into_inner()).clone()
}
