//! HashMap/HashSet of the rule managers: drop-in wrappers around std's with a FIXED hasher, in
//! both flavours. std's RandomState made the iteration order of `HashSet<Arc<Rule>>` (and with it
//! the order of controllers, the sequence of lock operations and - because the rules' Hash
//! includes the id while their Eq ignores it - even the outcome of set comparisons) differ from
//! process to process, which breaks exact replay of a recorded sequence or schedule.
pub use det::{HashMap, HashSet};

mod det {
    use std::collections::hash_map::DefaultHasher;
    use std::hash::{BuildHasherDefault, Hash};
    use std::ops::{Deref, DerefMut};
    type S = BuildHasherDefault<DefaultHasher>;
    pub struct HashMap<K, V>(std::collections::HashMap<K, V, S>);
    pub struct HashSet<T>(std::collections::HashSet<T, S>);
    impl<K, V> HashMap<K, V> {
        pub fn new() -> Self { Self(std::collections::HashMap::with_hasher(S::default())) }
        pub fn with_capacity(n: usize) -> Self { Self(std::collections::HashMap::with_capacity_and_hasher(n, S::default())) }
    }
    impl<T> HashSet<T> {
        pub fn new() -> Self { Self(std::collections::HashSet::with_hasher(S::default())) }
        pub fn with_capacity(n: usize) -> Self { Self(std::collections::HashSet::with_capacity_and_hasher(n, S::default())) }
    }
    impl<K, V> Default for HashMap<K, V> { fn default() -> Self { Self::new() } }
    impl<T> Default for HashSet<T> { fn default() -> Self { Self::new() } }
    impl<K, V> Deref for HashMap<K, V> { type Target = std::collections::HashMap<K, V, S>; fn deref(&self) -> &Self::Target { &self.0 } }
    impl<K, V> DerefMut for HashMap<K, V> { fn deref_mut(&mut self) -> &mut Self::Target { &mut self.0 } }
    impl<T> Deref for HashSet<T> { type Target = std::collections::HashSet<T, S>; fn deref(&self) -> &Self::Target { &self.0 } }
    impl<T> DerefMut for HashSet<T> { fn deref_mut(&mut self) -> &mut Self::Target { &mut self.0 } }
    impl<K: Eq + Hash, V: PartialEq> PartialEq for HashMap<K, V> { fn eq(&self, o: &Self) -> bool { self.0 == o.0 } }
    impl<T: Eq + Hash> PartialEq for HashSet<T> { fn eq(&self, o: &Self) -> bool { self.0 == o.0 } }
    impl<T: Eq + Hash> Eq for HashSet<T> {}
    impl<K: Clone, V: Clone> Clone for HashMap<K, V> { fn clone(&self) -> Self { Self(self.0.clone()) } }
    impl<T: Clone> Clone for HashSet<T> { fn clone(&self) -> Self { Self(self.0.clone()) } }
    impl<K: std::fmt::Debug, V: std::fmt::Debug> std::fmt::Debug for HashMap<K, V> { fn fmt(&self, f: &mut std::fmt::Formatter<'_>) -> std::fmt::Result { self.0.fmt(f) } }
    impl<T: std::fmt::Debug> std::fmt::Debug for HashSet<T> { fn fmt(&self, f: &mut std::fmt::Formatter<'_>) -> std::fmt::Result { self.0.fmt(f) } }
    impl<K: Eq + Hash, V> FromIterator<(K, V)> for HashMap<K, V> { fn from_iter<I: IntoIterator<Item = (K, V)>>(i: I) -> Self { let mut m = Self::new(); m.0.extend(i); m } }
    impl<T: Eq + Hash> FromIterator<T> for HashSet<T> { fn from_iter<I: IntoIterator<Item = T>>(i: I) -> Self { let mut m = Self::new(); m.0.extend(i); m } }
    impl<K, V> IntoIterator for HashMap<K, V> { type Item = (K, V); type IntoIter = std::collections::hash_map::IntoIter<K, V>; fn into_iter(self) -> Self::IntoIter { self.0.into_iter() } }
    impl<'a, K, V> IntoIterator for &'a HashMap<K, V> { type Item = (&'a K, &'a V); type IntoIter = std::collections::hash_map::Iter<'a, K, V>; fn into_iter(self) -> Self::IntoIter { self.0.iter() } }
    impl<'a, K, V> IntoIterator for &'a mut HashMap<K, V> { type Item = (&'a K, &'a mut V); type IntoIter = std::collections::hash_map::IterMut<'a, K, V>; fn into_iter(self) -> Self::IntoIter { self.0.iter_mut() } }
    impl<T> IntoIterator for HashSet<T> { type Item = T; type IntoIter = std::collections::hash_set::IntoIter<T>; fn into_iter(self) -> Self::IntoIter { self.0.into_iter() } }
    impl<'a, T> IntoIterator for &'a HashSet<T> { type Item = &'a T; type IntoIter = std::collections::hash_set::Iter<'a, T>; fn into_iter(self) -> Self::IntoIter { self.0.iter() } }
}
