#!/usr/bin/env python3
"""Regenerate /verif/harness/shadow/: manifests that compile the sources of the repo's CURRENT
working tree (VERIF_REPO or /repo) with one extra dependency, sentinel-verif-rt. Nothing in the
repo is modified. The manifests name the sources by ABSOLUTE path: when VERIF_REPO points
somewhere else the [lib] path changes, which changes cargo's fingerprint and forces a rebuild
(with a symlink the old build looked fresh whenever the other tree's files were older)."""
import os, re, sys
HERE = os.path.dirname(os.path.abspath(__file__))
REPO = os.path.abspath(os.environ.get("VERIF_REPO", "/repo"))
SH = os.path.join(HERE, "shadow")
os.makedirs(os.path.join(SH, "sentinel-core"), exist_ok=True)
os.makedirs(os.path.join(SH, "sentinel-tower"), exist_ok=True)
link = os.path.join(SH, "repo")
if os.path.islink(link):
    os.unlink(link)

def write_if_changed(path, text):
    if os.path.exists(path) and open(path).read() == text:
        return
    open(path, "w").write(text)

src = open(os.path.join(REPO, "sentinel-core", "Cargo.toml")).read()
# drop [[example]] blocks, dev-dependencies stay harmless
# all [[example]] tables sit at the end of the manifest: cut from the first one
cut = src.find("\n[[example]]")
if cut >= 0:
    src = src[:cut] + "\n"
src = src.replace('path = "../sentinel-macros"', 'path = "%s/sentinel-macros"' % REPO)
src = src.replace('readme = "README.md"\n', "")
assert "[lib]" in src
src = src.replace("[lib]\n", '[lib]\npath = "%s/sentinel-core/src/lib.rs"\n' % REPO, 1)
src = src.replace("[dependencies]\n", '[dependencies]\nsentinel-verif-rt = { path = "../../rt" }\n', 1)
if "[lints.rust]" not in src:
    src += '\n[lints.rust]\nunexpected_cfgs = { level = "allow" }\n'
write_if_changed(os.path.join(SH, "sentinel-core", "Cargo.toml"), src)

tw = open(os.path.join(REPO, "middleware", "tower", "Cargo.toml")).read()
tw = tw.replace('readme = "README.md"\n', "")
tw = re.sub(r'sentinel-core = \{[^}]*\}', 'sentinel-core = { path = "../sentinel-core" }', tw)
tw += '\n[lib]\npath = "%s/middleware/tower/src/lib.rs"\n' % REPO
write_if_changed(os.path.join(SH, "sentinel-tower", "Cargo.toml"), tw)
print("shadow ->", REPO)
