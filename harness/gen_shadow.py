#!/usr/bin/env python3
"""Regenerate /verif/harness/shadow/: manifests that compile the sources of the repo's CURRENT
working tree (VERIF_REPO or /repo) with one extra dependency, sentinel-verif-rt. Nothing in the
repo is modified; `shadow/repo` is a symlink to the repo root and all paths go through it."""
import os, re, sys
HERE = os.path.dirname(os.path.abspath(__file__))
REPO = os.path.abspath(os.environ.get("VERIF_REPO", "/repo"))
SH = os.path.join(HERE, "shadow")
os.makedirs(os.path.join(SH, "sentinel-core"), exist_ok=True)
os.makedirs(os.path.join(SH, "sentinel-tower"), exist_ok=True)
link = os.path.join(SH, "repo")
if os.path.islink(link) and os.readlink(link) != REPO:
    os.unlink(link)
if not os.path.islink(link):
    os.symlink(REPO, link)

def write_if_changed(path, text):
    if os.path.exists(path) and open(path).read() == text:
        return
    open(path, "w").write(text)

src = open(os.path.join(REPO, "sentinel-core", "Cargo.toml")).read()
# drop [[example]] blocks, dev-dependencies stay harmless
# all [[example]] tables sit at the end of the manifest: cut from the first one
cut = src.find("\n[[example]]")
if cut >= 0:
    src = src[:cut] + "\n"
src = src.replace('path = "../sentinel-macros"', 'path = "../repo/sentinel-macros"')
src = src.replace('readme = "README.md"\n', "")
assert "[lib]" in src
src = src.replace("[lib]\n", '[lib]\npath = "../repo/sentinel-core/src/lib.rs"\n', 1)
src = src.replace("[dependencies]\n", '[dependencies]\nsentinel-verif-rt = { path = "../../rt" }\n', 1)
if "[lints.rust]" not in src:
    src += '\n[lints.rust]\nunexpected_cfgs = { level = "allow" }\n'
write_if_changed(os.path.join(SH, "sentinel-core", "Cargo.toml"), src)

tw = open(os.path.join(REPO, "middleware", "tower", "Cargo.toml")).read()
tw = tw.replace('readme = "README.md"\n', "")
tw = re.sub(r'sentinel-core = \{[^}]*\}', 'sentinel-core = { path = "../sentinel-core" }', tw)
tw += '\n[lib]\npath = "../repo/middleware/tower/src/lib.rs"\n'
write_if_changed(os.path.join(SH, "sentinel-tower", "Cargo.toml"), tw)
print("shadow ->", REPO)
