#!/bin/bash
# seedcheck.sh <seed-worktree-id> <check-id>... : run checks against a scratch worktree with the seeded patch applied
# (never touches /repo: the shadow manifest is pointed at the worktree through VERIF_REPO)
id=$1; shift
W=/tmp/seed/$id
git -C $W checkout -q -- . && git -C $W apply $W/seed_out/patch.diff || { echo "patch does not apply"; exit 2; }
for c in "$@"; do VERIF_REPO=$W /verif/check $c quick 2>/dev/null | grep -E 'VIOLATION|KNOWN|why|quick:|MACHINERY' | cut -c1-330 | head -6; done
git -C $W checkout -q -- .
# evidence/replays written by these runs describe the patched tree: restore the committed evidence
git -C /verif checkout -q -- evidence 2>/dev/null
