#!/usr/bin/env python3
"""save_seed.py <ID> <name> <detected_by text> : copy a confirmed seeded change into /verif/seeded/<name>/"""
import json, os, shutil, sys, glob, re
pid, name, detected = sys.argv[1], sys.argv[2], sys.argv[3]
dstname = sys.argv[4] if len(sys.argv) > 4 else name
src = f"/tmp/seed/{name}/seed_out"
dst = f"/verif/seeded/{dstname}"
os.makedirs(dst, exist_ok=True)
for f in glob.glob(src + "/*"):
    if os.path.isfile(f):
        shutil.copy2(f, dst)
meta = json.load(open(src + "/meta.json"))
conf = ""
for log in sorted(glob.glob("/tmp/seed/confirm*.log"), key=lambda x: int(re.findall(r"(\d+)", x)[-1])):
    t = open(log).read()
    m = re.search(r"== %s\n(.*?)(?=\n== |\Z)" % re.escape(name), t, re.S)
    if m:
        conf = m.group(1).strip()
meta.update({"property": pid, "independently_confirmed": conf.splitlines(),
             "confirmation_procedure": "harness/tools/confirm_seed.sh in a scratch worktree: full suite with the patch (103 passed), demo with the patch (fails), demo without (passes)",
             "detected_by": detected})
json.dump(meta, open(dst + "/meta.json", "w"), indent=1)
print("saved", dst)
