#!/bin/bash
# run_all.sh <quick|thorough> : every claimed check in turn; summary line per property
cd "$(dirname "$0")/../.."
tier=${1:-quick}
rc_all=0
for id in $(python3 -c "import json; print(' '.join(c['property_id'] for c in json.load(open('MANIFEST.json'))['checks']))"); do
  start=$(date +%s)
  out=$(./check $id $tier 2>&1); rc=$?
  echo "$id rc=$rc $(( $(date +%s) - start ))s :: $(echo "$out" | grep -E "$id $tier:" | tail -1)"
  echo "$out" | grep -E 'VIOLATION|KNOWN-FINDING|MACHINERY' | head -5
  [ $rc -ne 0 ] && rc_all=1
done
exit $rc_all
