#!/bin/bash
# seed_regress.sh [name...] : every stored seeded change (default: all) is applied to a scratch worktree of /repo's HEAD
# (/tmp/seedreg, created if absent), the check(s) its meta.json names in detected_by are run against it (quick tier,
# through VERIF_REPO), and the change must be reported. Never touches /repo; restores the committed evidence.
cd "$(dirname "$0")/../.."
W=/tmp/seedreg
[ -d $W ] || git -C /repo worktree add --detach $W HEAD -f >/dev/null 2>&1
git -C $W checkout -q --detach $(git -C /repo rev-parse HEAD)
names="$@"; [ -z "$names" ] && names=$(ls seeded)
rc=0
for n in $names; do
  checks=$(python3 -c "
import json,re
m=json.load(open('seeded/$n/meta.json'))
print(' '.join(dict.fromkeys(re.findall(r'\b(C\d\d) (?:quick|thorough)', m.get('detected_by','')))))")
  git -C $W checkout -q -- . ; git -C $W apply /verif/seeded/$n/patch.diff || { echo "$n PATCH-DOES-NOT-APPLY"; rc=1; continue; }
  hit=""
  for c in $checks; do
    out=$(VERIF_REPO=$W ./check $c quick 2>&1)
    if echo "$out" | grep -q '^VIOLATION'; then hit="$hit $c"; fi
    if echo "$out" | grep -q 'MACHINERY-ERROR'; then hit="$hit $c(MACHINERY-ERROR:not-a-verdict)"; rc=1; fi
  done
  git -C $W checkout -q -- .
  if [ -n "$hit" ]; then echo "$n detected-by:$hit"; else echo "$n MISSED (ran: $checks)"; rc=1; fi
done
git checkout -q -- evidence 2>/dev/null
exit $rc
