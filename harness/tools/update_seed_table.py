#!/usr/bin/env python3
"""Rewrite the seeded-change table of DESIGN.md (between the SEED-TABLE markers) from /verif/seeded/*/meta.json."""
import json, os, re
rows = []
for d in sorted(os.listdir("/verif/seeded")):
    m = json.load(open(f"/verif/seeded/{d}/meta.json"))
    rows.append(f"| {d} | {m['summary'].replace(chr(10), ' ').replace('|', '/')[:260]} | {m['detected_by'].replace('|', '/')} |")
table = "| seed | summary of the change | reported by |\n|---|---|---|\n" + "\n".join(rows) + "\n"
s = open("/verif/DESIGN.md").read()
s = re.sub(r"<!-- SEED-TABLE-BEGIN -->.*?<!-- SEED-TABLE-END -->", "<!-- SEED-TABLE-BEGIN -->\n" + table + "<!-- SEED-TABLE-END -->", s, flags=re.S)
open("/verif/DESIGN.md", "w").write(s)
print(len(rows), "seeds in table")
