#!/usr/bin/env python3
"""mutate.py <out.log> : boundary mutants (one relational operator flipped at a time: > <-> >=, < <-> <=) of the
decision code each property is anchored in, applied to the scratch worktree /tmp/seedreg (never /repo), and the
quick checks of the properties that file belongs to run against it through VERIF_REPO. A mutant that no check
reports is logged as SURVIVED for inspection (equivalent mutants are expected among them). A gap finder for the
harness, not part of any registered check."""
import os, re, subprocess, sys
W = "/tmp/seedreg"
SRC = "sentinel-core/src/core/"
TARGETS = [
    ("flow/traffic_shaping/default.rs", ["C01"]),
    ("flow/traffic_shaping/throttling.rs", ["C07"]),
    ("flow/traffic_shaping/warmup.rs", ["C08"]),
    ("flow/slot.rs", ["C01", "C07"]),
    ("flow/standalone_stat_slot.rs", ["C01"]),
    ("stat/base/leap_array.rs", ["C02", "C01"]),
    ("stat/base/sliding_window_metric.rs", ["C02", "C01"]),
    ("stat/base/bucket_leap_array.rs", ["C02"]),
    ("stat/base/metric_bucket.rs", ["C02"]),
    ("stat/resource_node.rs", ["C02", "C04"]),
    ("circuitbreaker/breaker/mod.rs", ["C03"]),
    ("circuitbreaker/breaker/error_count.rs", ["C03"]),
    ("circuitbreaker/breaker/error_ratio.rs", ["C03"]),
    ("circuitbreaker/breaker/slow_request.rs", ["C03"]),
    ("circuitbreaker/breaker/stat.rs", ["C03"]),
    ("hotspot/traffic_shaping/reject.rs", ["C06"]),
    ("hotspot/traffic_shaping/throttling.rs", ["C07"]),
    ("hotspot/traffic_shaping/mod.rs", ["C05", "C06"]),
    ("hotspot/concurrency_stat_slot.rs", ["C05"]),
    ("isolation/slot.rs", ["C05"]),
    ("system/slot.rs", ["C09"]),
    ("log/metric/writer.rs", ["C19"]),
    ("log/metric/reader.rs", ["C19"]),
    ("log/metric/searcher.rs", ["C19"]),
    ("base/slot_chain.rs", ["C13"]),
]
FLIP = {" > ": " >= ", " >= ": " > ", " < ": " <= ", " <= ": " < "}
# MUTATE_OPS=logic: && <-> || and == <-> != instead of the relational boundaries
if os.environ.get("MUTATE_OPS") == "logic":
    FLIP = {" && ": " || ", " || ": " && ", " == ": " != ", " != ": " == "}
def sh(cmd, **kw):
    return subprocess.run(cmd, shell=True, capture_output=True, text=True, **kw)
def main():
    out = open(sys.argv[1], "a")
    only = sys.argv[2:]  # optional file filters
    head = sh("git -C /repo rev-parse HEAD").stdout.strip()
    if not os.path.isdir(W):
        sh(f"git -C /repo worktree add --detach {W} HEAD -f")
    sh(f"git -C {W} checkout -q --detach {head}")
    for rel, checks in TARGETS:
        if only and not any(o in rel for o in only):
            continue
        path = os.path.join(W, SRC, rel)
        if not os.path.exists(path):
            print("missing", rel, file=out, flush=True); continue
        lines = open(path).read().split("\n")
        in_test = False
        for ln, line in enumerate(lines):
            if re.match(r"\s*(#\[cfg\(test\)\]|mod tests? \{)", line):
                in_test = True
            if in_test:
                break
            code = line.split("//")[0]
            if "->" in code and re.search(r"fn |\|.*\| ->", code):
                continue
            pat = r" (&&|\|\||==|!=) " if os.environ.get("MUTATE_OPS") == "logic" else r" (>=|<=|>|<) "
            for m in re.finditer(pat, code):
                op = " %s " % m.group(1)
                # skip generics / shifts / arrows
                before = code[:m.start()]
                if os.environ.get("MUTATE_OPS") != "logic" and (before.rstrip().endswith(("=", "-", "<", ">")) or code[m.end():].lstrip().startswith(("=", ">", "<"))):
                    continue
                mutated = line[:m.start()] + FLIP[op] + line[m.end():]
                new = lines[:]; new[ln] = mutated
                sh(f"git -C {W} checkout -q -- .")
                open(path, "w").write("\n".join(new))
                tag = f"{rel}:{ln+1} '{op.strip()}'->'{FLIP[op].strip()}' :: {line.strip()[:110]}"
                killed = None
                for c in checks:
                    r = sh(f"VERIF_REPO={W} /verif/check {c} quick", cwd="/verif")
                    if "MACHINERY-ERROR" in r.stdout:
                        killed = "BUILD-ERROR"; break
                    if r.returncode == 1 and "VIOLATION" in r.stdout:
                        killed = c + " " + re.search(r"why: (.*)", r.stdout).group(1)[:90] if re.search(r"why: (.*)", r.stdout) else c
                        break
                print(("KILLED  " if killed else "SURVIVED") + " " + tag + ((" :: " + killed) if killed else ""), file=out, flush=True)
    sh(f"git -C {W} checkout -q -- .")
    sh("git -C /verif checkout -q -- evidence")
    print("DONE", file=out, flush=True)
main()
