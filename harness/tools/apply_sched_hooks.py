#!/usr/bin/env python3
"""One-shot generator of the 'schedulable primitives' hook commit in /repo (kept for the record).

For every non-test `use std::sync::...;`, `use lazy_static::lazy_static;` (and, in the files listed in
COLLECTION_FILES, `use std::collections::{HashMap,HashSet}`) it ADDS a `#[cfg(not(sentinel_verif))]`
line in front and a `#[cfg(sentinel_verif)]` twin importing the same names from `sentinel_verif_rt`.
`std::thread::yield_now();` statements get the same treatment. No existing line is rewritten."""
import re, sys, os
ROOT = sys.argv[1] if len(sys.argv) > 1 else "/repo/sentinel-core/src"
SKIP_DIRS = ("datasource",)
SKIP_FILES = ("exporter.rs", "core/log/metric/writer.rs", "core/log/metric/reader.rs", "core/log/metric/searcher.rs")
COLLECTION_FILES = ("core/flow/rule_manager.rs", "core/circuitbreaker/rule_manager.rs", "core/hotspot/rule_manager.rs",
                    "core/isolation/rule_manager.rs", "core/system/rule_manager.rs", "core/stat/node_storage.rs")

def process(path, rel):
    src = open(path).read().split("\n")
    out = []
    i = 0
    in_test = False
    changed = False
    while i < len(src):
        line = src[i]
        if re.match(r"\s*#\[cfg\(test\)\]", line) and i + 1 < len(src) and re.match(r"\s*(pub(\(crate\))? )?mod ", src[i + 1]):
            in_test = True
        if in_test:
            out.append(line); i += 1; continue
        m = re.match(r"(\s*)use (std::sync::|lazy_static::lazy_static;|std::collections::)", line)
        if m and not (out and "cfg(" in out[-1] and "sentinel_verif" in out[-1]):
            if out and re.match(r"\s*#\[cfg", out[-1]):
                # already conditional (e.g. cfg(test)); leave alone
                out.append(line); i += 1; continue
            indent = m.group(1)
            stmt = [line]
            while not stmt[-1].rstrip().endswith(";"):
                i += 1; stmt.append(src[i])
            text = "\n".join(stmt)
            if m.group(2) == "std::collections::":
                if rel not in COLLECTION_FILES or not re.search(r"Hash(Map|Set)", text):
                    out.extend(stmt); i += 1; continue
                new = text.replace("use std::collections::", "use sentinel_verif_rt::collections::", 1)
            elif m.group(2) == "std::sync::":
                new = text.replace("use std::sync::", "use sentinel_verif_rt::sync::", 1)
            else:
                new = text.replace("use lazy_static::lazy_static;", "use sentinel_verif_rt::lazy_static;", 1)
            out.append(indent + "#[cfg(not(sentinel_verif))]")
            out.extend(stmt)
            out.append(indent + "#[cfg(sentinel_verif)]")
            out.extend(new.split("\n"))
            changed = True
            i += 1; continue
        m = re.match(r"(\s*)std::thread::yield_now\(\);\s*$", line)
        if m:
            indent = m.group(1)
            out.append(indent + "#[cfg(not(sentinel_verif))]")
            out.append(line)
            out.append(indent + "#[cfg(sentinel_verif)]")
            out.append(indent + "sentinel_verif_rt::sync::yield_now();")
            changed = True
            i += 1; continue
        out.append(line); i += 1
    if changed:
        open(path, "w").write("\n".join(out))
        print("hooked", rel)

for d, _, fs in os.walk(ROOT):
    for f in fs:
        if not f.endswith(".rs"): continue
        p = os.path.join(d, f); rel = os.path.relpath(p, ROOT)
        if rel.split("/")[0] in SKIP_DIRS or rel in SKIP_FILES: continue
        process(p, rel)
