#!/usr/bin/env python3
"""Validate MANIFEST.json and every evidence file against the schemas (uses the tooling venv's jsonschema)."""
import json, sys, glob, os
try:
    import jsonschema
except ImportError:
    if os.environ.get("VALIDATE_REEXEC"):
        print("jsonschema not available"); sys.exit(2)
    import subprocess
    sys.exit(subprocess.call(["/opt/veriftools/pyvenv/bin/python", os.path.abspath(__file__)] + sys.argv[1:], env=dict(os.environ, VALIDATE_REEXEC="1")))
ok = True
def chk(path, schema):
    global ok
    try:
        jsonschema.validate(json.load(open(path)), json.load(open(schema)))
        print("valid  ", path)
    except Exception as e:
        ok = False
        print("INVALID", path, str(e)[:300])
if os.path.exists("/verif/MANIFEST.json"):
    chk("/verif/MANIFEST.json", "/root/.vp/MANIFEST.schema.json")
for f in sorted(glob.glob("/verif/evidence/*.json")):
    chk(f, "/root/.vp/EVIDENCE.schema.json")
sys.exit(0 if ok else 1)
