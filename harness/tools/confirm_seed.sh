#!/bin/bash
# confirm_seed.sh <worktree> : re-confirm a seeded change independently of the agent that wrote it.
#  1. suite with patch (103 passed)  2. demo with patch (must fail)  3. demo without patch (must pass)
W=$1; cd $W || exit 2
export CARGO_BUILD_JOBS=6 CARGO_TARGET_DIR=$W/target CARGO_NET_OFFLINE=true
OUT=$W/seed_out
git checkout -q -- . ; git clean -fdq -e target -e seed_out -e demo_crate ; rm -f sentinel-core/tests/seed_demo*.rs
git apply $OUT/patch.diff || { echo "PATCH-DOES-NOT-APPLY"; exit 1; }
suite=$(cargo test --workspace --no-fail-fast --offline 2>&1 | grep -E '^test result' | head -1)
# flow::...::parallel_queueing is timing sensitive on a loaded machine: one re-run is allowed
case "$suite" in *"103 passed"*) ;; *) echo "suite-first-run: $suite"; suite=$(cargo test --workspace --no-fail-fast --offline 2>&1 | grep -E '^test result' | head -1);; esac
echo "suite-with-patch: $suite"
demo_install() {
  if ls $OUT/*.rs >/dev/null 2>&1; then for f in $OUT/*.rs; do cp $f sentinel-core/tests/$(basename $f); done; fi
  if [ -f $OUT/demo.diff ]; then git apply $OUT/demo.diff; fi
}
demo_run() {
  if [ -f $OUT/demo.diff ]; then cargo test -p sentinel-core --features "${SEED_FEATURES:-}" --lib --offline seed_demo -- --test-threads=1 2>&1 | grep -E '^test result|panicked' | head -3
  else for f in $OUT/*.rs; do t=$(basename $f .rs); cargo test -p sentinel-core --features "${SEED_FEATURES:-}" --test $t --offline -- --test-threads=1 2>&1 | grep -E '^test result|panicked' | head -3; done; fi
}
demo_install
echo "demo-with-patch: $(demo_run | tr '\n' ' ')"
git checkout -q -- . ; git clean -fdq -e target -e seed_out -e demo_crate
demo_install
echo "demo-without-patch: $(demo_run | tr '\n' ' ')"
git checkout -q -- . ; rm -f sentinel-core/tests/seed_demo*.rs
