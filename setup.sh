#!/bin/sh
# Build the harness (both flavours) offline from files on disk, against /repo's working tree.
set -e
cd "$(dirname "$0")/harness"
export CARGO_NET_OFFLINE=true RUSTFLAGS="--cfg sentinel_verif"
python3 gen_shadow.py
(cd mc && CARGO_TARGET_DIR=../target-seq cargo build --release --offline --quiet)
(cd mc && CARGO_TARGET_DIR=../target-sched cargo build --release --offline --quiet --features sched)
# C12 is explored a second time with arithmetic overflow checks on (dev-profile behaviour)
(cd mc && CARGO_PROFILE_RELEASE_OVERFLOW_CHECKS=true CARGO_TARGET_DIR=../target-seqoc cargo build --release --offline --quiet)
echo "setup ok"
